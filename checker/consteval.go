package main

// Constant evaluation of table builders. Lookup tables are often not literals but the result of a small
// function run once at package initialisation:
//
//	var classes = buildClasses()
//	func buildClasses() (t [256]uint8) { for c := 'a'; c <= 'z'; c++ { t[c] = 1 }; … }
//
// Such a function has no inputs: its result is a constant of the program. foldFunc folds it the way a
// compiler could: it evaluates the SSA form over constants (integers, booleans, strings, arrays and slices
// of those, local variables), unrolling its loops, with a step bound. Anything that is not a constant of
// this kind — a parameter, a package-level variable that is not itself a folded constant, a call to
// anything but len/cap and other foldable functions of the module — makes the fold fail, and the table
// "not evaluable", which the rules report as undecided. No code of the repository is run: the evaluator
// reads SSA instructions and implements only integer/boolean/string operations.

import (
	"go/constant"
	"go/token"
	"go/types"
	"strings"
	"unicode/utf8"

	"golang.org/x/tools/go/ssa"
)

type cvKind int

const (
	cvInt cvKind = iota
	cvBool
	cvString
	cvArray // fixed array value (copy semantics)
	cvSlice
	cvRef // pointer to a cell or to an element of an array cell
	cvStruct
	cvNil
)

type cval struct {
	kind  cvKind
	i     int64
	b     bool
	s     string
	elems []cval // array / struct fields
	// slice
	cell   *ccell
	lo, hi int
	// ref
	idx   int // -1: the cell itself; >= 0: element idx of an array cell / field idx of a struct cell
	field bool
}

type ccell struct{ v cval }

type folder struct {
	p     *Program
	steps int
	depth int
	fail  string
}

const foldStepLimit = 400000

func (f *folder) bad(why string) cval {
	if f.fail == "" {
		f.fail = why
	}
	return cval{kind: cvNil}
}

func zeroOf(t types.Type) (cval, bool) {
	switch u := t.Underlying().(type) {
	case *types.Basic:
		switch {
		case u.Info()&types.IsBoolean != 0:
			return cval{kind: cvBool}, true
		case u.Info()&types.IsInteger != 0:
			return cval{kind: cvInt}, true
		case u.Info()&types.IsString != 0:
			return cval{kind: cvString}, true
		}
	case *types.Array:
		if u.Len() > 70000 {
			return cval{}, false
		}
		ez, ok := zeroOf(u.Elem())
		if !ok {
			return cval{}, false
		}
		out := cval{kind: cvArray, elems: make([]cval, u.Len())}
		for i := range out.elems {
			out.elems[i] = copyVal(ez)
		}
		return out, true
	case *types.Struct:
		out := cval{kind: cvStruct, elems: make([]cval, u.NumFields())}
		for i := 0; i < u.NumFields(); i++ {
			z, ok := zeroOf(u.Field(i).Type())
			if !ok {
				return cval{}, false
			}
			out.elems[i] = z
		}
		return out, true
	case *types.Slice, *types.Pointer:
		return cval{kind: cvNil}, true
	}
	return cval{}, false
}

func copyVal(v cval) cval {
	if v.kind == cvArray || v.kind == cvStruct {
		out := v
		out.elems = make([]cval, len(v.elems))
		for i := range v.elems {
			out.elems[i] = copyVal(v.elems[i])
		}
		return out
	}
	return v
}

func wrapInt(x int64, t types.Type) int64 {
	b, ok := t.Underlying().(*types.Basic)
	if !ok {
		return x
	}
	switch b.Kind() {
	case types.Uint8:
		return x & 0xFF
	case types.Int8:
		return int64(int8(x))
	case types.Uint16:
		return x & 0xFFFF
	case types.Int16:
		return int64(int16(x))
	case types.Uint32:
		return x & 0xFFFFFFFF
	case types.Int32:
		return int64(int32(x))
	}
	return x
}

// foldFunc evaluates a function of the module with constant arguments.
func (f *folder) call(fn *ssa.Function, args []cval) cval {
	root := fn
	for root != nil && root.Parent() != nil {
		root = root.Parent()
	}
	if fn == nil || fn.Blocks == nil || root.Pkg == nil || !strings.HasPrefix(root.Pkg.Pkg.Path(), modulePath) || len(fn.FreeVars) > 0 {
		return f.bad("call to a function outside the module")
	}
	if f.depth > 6 {
		return f.bad("call depth")
	}
	f.depth++
	defer func() { f.depth-- }()
	env := map[ssa.Value]cval{}
	for i, prm := range fn.Params {
		if i >= len(args) {
			return f.bad("missing argument")
		}
		env[prm] = args[i]
	}
	get := func(v ssa.Value) cval {
		switch x := v.(type) {
		case *ssa.Const:
			if x.Value == nil {
				z, ok := zeroOf(x.Type())
				if !ok {
					return f.bad("zero value of an unsupported type")
				}
				return z
			}
			switch x.Value.Kind() {
			case constant.Bool:
				return cval{kind: cvBool, b: constant.BoolVal(x.Value)}
			case constant.Int:
				n, ok := constant.Int64Val(x.Value)
				if !ok {
					u, ok2 := constant.Uint64Val(x.Value)
					if !ok2 {
						return f.bad("integer constant out of range")
					}
					n = int64(u)
				}
				return cval{kind: cvInt, i: n}
			case constant.String:
				return cval{kind: cvString, s: constant.StringVal(x.Value)}
			}
			return f.bad("unsupported constant")
		case *ssa.Global:
			return f.bad("package-level variable " + x.Name())
		case *ssa.Function:
			return f.bad("function value")
		}
		if c, ok := env[v]; ok {
			return c
		}
		return f.bad("value not computed: " + v.Name())
	}
	load := func(r cval) cval {
		if r.kind != cvRef || r.cell == nil {
			return f.bad("load through a non-reference")
		}
		if r.idx < 0 {
			return copyVal(r.cell.v)
		}
		if r.idx >= len(r.cell.v.elems) {
			return f.bad("index out of range")
		}
		return copyVal(r.cell.v.elems[r.idx])
	}
	store := func(r cval, v cval) {
		if r.kind != cvRef || r.cell == nil {
			f.bad("store through a non-reference")
			return
		}
		if r.idx < 0 {
			r.cell.v = copyVal(v)
			return
		}
		if r.idx >= len(r.cell.v.elems) {
			f.bad("index out of range")
			return
		}
		r.cell.v.elems[r.idx] = copyVal(v)
	}
	b := fn.Blocks[0]
	var prev *ssa.BasicBlock
	for {
		for _, in := range b.Instrs {
			f.steps++
			if f.steps > foldStepLimit {
				return f.bad("step limit")
			}
			if f.fail != "" {
				return cval{kind: cvNil}
			}
			switch x := in.(type) {
			case *ssa.DebugRef:
			case *ssa.Alloc:
				z, ok := zeroOf(x.Type().Underlying().(*types.Pointer).Elem())
				if !ok {
					return f.bad("local of an unsupported type")
				}
				env[x] = cval{kind: cvRef, cell: &ccell{v: z}, idx: -1}
			case *ssa.Phi:
				found := false
				for k, pr := range b.Preds {
					if pr == prev {
						env[x] = get(x.Edges[k])
						found = true
					}
				}
				if !found {
					return f.bad("phi without a taken edge")
				}
			case *ssa.Store:
				store(get(x.Addr), get(x.Val))
			case *ssa.UnOp:
				v := get(x.X)
				switch x.Op {
				case token.MUL:
					env[x] = load(v)
				case token.NOT:
					env[x] = cval{kind: cvBool, b: !v.b}
				case token.SUB:
					env[x] = cval{kind: cvInt, i: wrapInt(-v.i, x.Type())}
				case token.XOR:
					env[x] = cval{kind: cvInt, i: wrapInt(^v.i, x.Type())}
				default:
					return f.bad("unary operator")
				}
			case *ssa.BinOp:
				l, r := get(x.X), get(x.Y)
				if l.kind == cvString && r.kind == cvString {
					switch x.Op {
					case token.ADD:
						env[x] = cval{kind: cvString, s: l.s + r.s}
					case token.EQL:
						env[x] = cval{kind: cvBool, b: l.s == r.s}
					case token.NEQ:
						env[x] = cval{kind: cvBool, b: l.s != r.s}
					default:
						return f.bad("string operator")
					}
					continue
				}
				if l.kind == cvBool && r.kind == cvBool {
					switch x.Op {
					case token.EQL:
						env[x] = cval{kind: cvBool, b: l.b == r.b}
					case token.NEQ:
						env[x] = cval{kind: cvBool, b: l.b != r.b}
					default:
						return f.bad("boolean operator")
					}
					continue
				}
				if l.kind != cvInt || r.kind != cvInt {
					return f.bad("operands of an unsupported kind")
				}
				a, c := l.i, r.i
				var res int64
				isCmp := true
				var cb bool
				switch x.Op {
				case token.EQL:
					cb = a == c
				case token.NEQ:
					cb = a != c
				case token.LSS:
					cb = a < c
				case token.LEQ:
					cb = a <= c
				case token.GTR:
					cb = a > c
				case token.GEQ:
					cb = a >= c
				default:
					isCmp = false
					switch x.Op {
					case token.ADD:
						res = a + c
					case token.SUB:
						res = a - c
					case token.MUL:
						res = a * c
					case token.QUO:
						if c == 0 {
							return f.bad("division by zero")
						}
						res = a / c
					case token.REM:
						if c == 0 {
							return f.bad("division by zero")
						}
						res = a % c
					case token.AND:
						res = a & c
					case token.OR:
						res = a | c
					case token.XOR:
						res = a ^ c
					case token.AND_NOT:
						res = a &^ c
					case token.SHL:
						if c < 0 || c > 63 {
							return f.bad("shift count")
						}
						res = a << uint(c)
					case token.SHR:
						if c < 0 || c > 63 {
							return f.bad("shift count")
						}
						res = a >> uint(c)
					default:
						return f.bad("integer operator")
					}
				}
				if isCmp {
					env[x] = cval{kind: cvBool, b: cb}
				} else {
					env[x] = cval{kind: cvInt, i: wrapInt(res, x.Type())}
				}
			case *ssa.Convert:
				v := get(x.X)
				switch {
				case v.kind == cvInt && isIntegerType(x.Type()):
					env[x] = cval{kind: cvInt, i: wrapInt(v.i, x.Type())}
				case v.kind == cvString && isByteSlice(x.Type()):
					arr := cval{kind: cvArray, elems: make([]cval, len(v.s))}
					for i := 0; i < len(v.s); i++ {
						arr.elems[i] = cval{kind: cvInt, i: int64(v.s[i])}
					}
					env[x] = cval{kind: cvSlice, cell: &ccell{v: arr}, lo: 0, hi: len(v.s)}
				case v.kind == cvInt && isStringish(x.Type()):
					env[x] = cval{kind: cvString, s: string(rune(v.i))}
				default:
					return f.bad("conversion")
				}
			case *ssa.ChangeType:
				env[x] = get(x.X)
			case *ssa.IndexAddr:
				base, idx := get(x.X), get(x.Index)
				if idx.kind != cvInt {
					return f.bad("index")
				}
				switch base.kind {
				case cvRef:
					if base.idx >= 0 {
						return f.bad("nested element reference")
					}
					env[x] = cval{kind: cvRef, cell: base.cell, idx: int(idx.i)}
					if int(idx.i) < 0 || int(idx.i) >= len(base.cell.v.elems) {
						return f.bad("index out of range")
					}
				case cvSlice:
					k := base.lo + int(idx.i)
					if idx.i < 0 || k >= base.hi {
						return f.bad("index out of range")
					}
					env[x] = cval{kind: cvRef, cell: base.cell, idx: k}
				default:
					return f.bad("indexing an unsupported value")
				}
			case *ssa.FieldAddr:
				base := get(x.X)
				if base.kind != cvRef || base.idx >= 0 || base.cell.v.kind != cvStruct {
					return f.bad("field of an unsupported value")
				}
				// a field that is itself an array is addressed through a cell of its own, shared with the struct
				fv := &base.cell.v.elems[x.Field]
				if fv.kind == cvArray || fv.kind == cvStruct {
					return f.bad("aggregate field")
				}
				env[x] = cval{kind: cvRef, cell: base.cell, idx: x.Field}
			case *ssa.Index:
				base, idx := get(x.X), get(x.Index)
				if base.kind != cvArray || idx.kind != cvInt || idx.i < 0 || int(idx.i) >= len(base.elems) {
					return f.bad("index")
				}
				env[x] = copyVal(base.elems[idx.i])
			case *ssa.Lookup:
				base, idx := get(x.X), get(x.Index)
				if base.kind != cvString || idx.kind != cvInt || idx.i < 0 || int(idx.i) >= len(base.s) {
					return f.bad("lookup")
				}
				env[x] = cval{kind: cvInt, i: int64(base.s[idx.i])}
			case *ssa.Slice:
				base := get(x.X)
				lo, hi := 0, -1
				if x.Low != nil {
					lo = int(get(x.Low).i)
				}
				switch base.kind {
				case cvRef:
					if base.idx >= 0 || base.cell.v.kind != cvArray {
						return f.bad("slice of an unsupported value")
					}
					hi = len(base.cell.v.elems)
					if x.High != nil {
						hi = int(get(x.High).i)
					}
					env[x] = cval{kind: cvSlice, cell: base.cell, lo: lo, hi: hi}
				case cvSlice:
					hi = base.hi - base.lo
					if x.High != nil {
						hi = int(get(x.High).i)
					}
					env[x] = cval{kind: cvSlice, cell: base.cell, lo: base.lo + lo, hi: base.lo + hi}
				case cvString:
					hi = len(base.s)
					if x.High != nil {
						hi = int(get(x.High).i)
					}
					if lo < 0 || hi > len(base.s) || lo > hi {
						return f.bad("slice bounds")
					}
					env[x] = cval{kind: cvString, s: base.s[lo:hi]}
				default:
					return f.bad("slice of an unsupported value")
				}
			case *ssa.Call:
				c := x.Common()
				if bi, ok := c.Value.(*ssa.Builtin); ok {
					if len(c.Args) != 1 {
						return f.bad("builtin " + bi.Name())
					}
					a := get(c.Args[0])
					switch bi.Name() {
					case "len", "cap":
						switch a.kind {
						case cvString:
							env[x] = cval{kind: cvInt, i: int64(len(a.s))}
						case cvSlice:
							env[x] = cval{kind: cvInt, i: int64(a.hi - a.lo)}
						case cvArray:
							env[x] = cval{kind: cvInt, i: int64(len(a.elems))}
						case cvRef:
							env[x] = cval{kind: cvInt, i: int64(len(a.cell.v.elems))}
						case cvNil:
							env[x] = cval{kind: cvInt, i: 0}
						default:
							return f.bad("len of an unsupported value")
						}
					default:
						return f.bad("builtin " + bi.Name())
					}
					continue
				}
				g := c.StaticCallee()
				if g == nil {
					return f.bad("dynamic call")
				}
				if isSyncLockCall(g) {
					continue // taking or releasing a lock does not change what is computed
				}
				var as []cval
				for _, a := range c.Args {
					as = append(as, get(a))
				}
				env[x] = f.call(g, as)
			case *ssa.Range:
				v := get(x.X)
				if v.kind != cvString {
					return f.bad("range over an unsupported value")
				}
				env[x] = cval{kind: cvRef, cell: &ccell{v: cval{kind: cvString, s: v.s, i: 0}}, idx: -1}
			case *ssa.Next:
				it := get(x.Iter)
				if it.kind != cvRef || it.cell == nil || !x.IsString {
					return f.bad("iterator")
				}
				st := &it.cell.v
				if int(st.i) >= len(st.s) {
					env[x] = cval{kind: cvStruct, elems: []cval{{kind: cvBool, b: false}, {kind: cvInt}, {kind: cvInt}}}
				} else {
					r, size := utf8.DecodeRuneInString(st.s[st.i:])
					env[x] = cval{kind: cvStruct, elems: []cval{{kind: cvBool, b: true}, {kind: cvInt, i: st.i}, {kind: cvInt, i: int64(r)}}}
					st.i += int64(size)
				}
			case *ssa.Extract:
				t := get(x.Tuple)
				if t.kind != cvStruct || x.Index >= len(t.elems) {
					return f.bad("tuple")
				}
				env[x] = t.elems[x.Index]
			case *ssa.Return:
				if len(x.Results) != 1 {
					return f.bad("result count")
				}
				return get(x.Results[0])
			case *ssa.If:
				c := get(x.Cond)
				if f.fail != "" {
					return cval{kind: cvNil}
				}
				prev = b
				if c.b {
					b = b.Succs[0]
				} else {
					b = b.Succs[1]
				}
				goto next
			case *ssa.Jump:
				prev = b
				b = b.Succs[0]
				goto next
			case *ssa.Defer:
				if g := x.Common().StaticCallee(); g == nil || !isSyncLockCall(g) {
					return f.bad("deferred call")
				}
			case *ssa.RunDefers:
			default:
				return f.bad("instruction " + in.String())
			}
		}
		return f.bad("block without terminator")
	next:
	}
}

// isSyncLockCall: Lock/Unlock/RLock/RUnlock of sync.Mutex or sync.RWMutex.
func isSyncLockCall(g *ssa.Function) bool {
	switch fnName(g) {
	case "(*sync.Mutex).Lock", "(*sync.Mutex).Unlock", "(*sync.RWMutex).Lock", "(*sync.RWMutex).Unlock", "(*sync.RWMutex).RLock", "(*sync.RWMutex).RUnlock":
		return true
	}
	return false
}

func isIntegerType(t types.Type) bool {
	b, ok := t.Underlying().(*types.Basic)
	return ok && b.Info()&types.IsInteger != 0
}

var foldedTables = map[*ssa.Global]*[]int64{}

// foldedIntTable: the contents of a package-level array of integers or booleans (booleans as 0/1) that is
// initialised once — by a literal, by constant-index stores of its initialiser, or by a foldable builder
// function — and never written elsewhere.
func foldedIntTable(p *Program, g *ssa.Global) ([]int64, bool) {
	if c, ok := foldedTables[g]; ok {
		if c == nil {
			return nil, false
		}
		return *c, true
	}
	foldedTables[g] = nil
	if g.Pkg == nil {
		return nil, false
	}
	arr, ok := g.Type().Underlying().(*types.Pointer).Elem().Underlying().(*types.Array)
	if !ok || arr.Len() > 70000 {
		return nil, false
	}
	initFn := g.Pkg.Func("init")
	z, ok := zeroOf(arr)
	if !ok {
		return nil, false
	}
	cur := z
	whole := 0
	f := &folder{p: p}
	for _, fn := range p.SrcFuncs() {
		for _, b := range fn.Blocks {
			for _, in := range b.Instrs {
				st, ok := in.(*ssa.Store)
				if !ok {
					continue
				}
				switch a := st.Addr.(type) {
				case *ssa.Global:
					if a != g {
						continue
					}
					if fn != initFn {
						return nil, false
					}
					whole++
					switch v := st.Val.(type) {
					case *ssa.Call:
						callee := v.Common().StaticCallee()
						if callee == nil {
							if mc, ok := v.Common().Value.(*ssa.MakeClosure); ok && len(mc.Bindings) == 0 {
								callee, _ = mc.Fn.(*ssa.Function)
							}
						}
						if callee == nil || len(v.Common().Args) != 0 {
							return nil, false
						}
						cur = f.call(callee, nil)
						if f.fail != "" || cur.kind != cvArray {
							return nil, false
						}
					default:
						return nil, false
					}
				case *ssa.IndexAddr:
					if a.X != ssa.Value(g) {
						continue
					}
					k, okk := constInt(a.Index)
					if fn != initFn || !okk || k < 0 || k >= arr.Len() {
						return nil, false
					}
					switch c := st.Val.(type) {
					case *ssa.Const:
						if c.Value == nil {
							continue
						}
						switch c.Value.Kind() {
						case constant.Bool:
							cur.elems[k] = cval{kind: cvBool, b: constant.BoolVal(c.Value)}
						case constant.Int:
							n, _ := constant.Int64Val(c.Value)
							cur.elems[k] = cval{kind: cvInt, i: n}
						default:
							return nil, false
						}
					default:
						return nil, false
					}
				}
			}
		}
	}
	if whole > 1 {
		return nil, false
	}
	out := make([]int64, len(cur.elems))
	for i, e := range cur.elems {
		switch e.kind {
		case cvInt:
			out[i] = e.i
		case cvBool:
			if e.b {
				out[i] = 1
			}
		default:
			return nil, false
		}
	}
	foldedTables[g] = &out
	return out, true
}
