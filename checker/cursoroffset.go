package main

// checkCursorOffsetAgreement (C01.R20): a scanner that walks a text by re-slicing it (s = s[k:]) while it keeps
// the position in the original text in a counter (res += k) relies on the invariant "counter = bytes cut off so
// far". Every way round the loop must add to the counter exactly what it cuts off the slice; otherwise the offset
// it reports for a match (the end tag of a <script> or <style> body) is wrong, and the escaper leaves the body at
// the wrong byte. The rule evaluates both updates as linear expressions over the SSA values of the loop body,
// path by path through the merges, and compares them.
import (
	"fmt"
	"go/token"
	"sort"
	"strings"

	"golang.org/x/tools/go/ssa"
)

type linExpr struct {
	coef map[string]int64
	k    int64
}

func (a linExpr) add(b linExpr, sign int64) linExpr {
	out := linExpr{coef: map[string]int64{}, k: a.k + sign*b.k}
	for n, c := range a.coef {
		out.coef[n] = c
	}
	for n, c := range b.coef {
		out.coef[n] += sign * c
		if out.coef[n] == 0 {
			delete(out.coef, n)
		}
	}
	return out
}

func (a linExpr) isZero() bool { return a.k == 0 && len(a.coef) == 0 }

func (a linExpr) String() string {
	var parts []string
	var names []string
	for n := range a.coef {
		names = append(names, n)
	}
	sort.Strings(names)
	for _, n := range names {
		parts = append(parts, fmt.Sprintf("%+d·%s", a.coef[n], n))
	}
	if a.k != 0 || len(parts) == 0 {
		parts = append(parts, fmt.Sprintf("%+d", a.k))
	}
	return strings.Join(parts, " ")
}

// linOf: v as a linear expression over atoms (SSA values; len(x) calls of one value are one atom).
func linOf(v ssa.Value, depth int) linExpr {
	if k, ok := constInt(v); ok {
		return linExpr{coef: map[string]int64{}, k: k}
	}
	if depth < 6 {
		if bo, ok := v.(*ssa.BinOp); ok {
			switch bo.Op {
			case token.ADD:
				return linOf(bo.X, depth+1).add(linOf(bo.Y, depth+1), 1)
			case token.SUB:
				return linOf(bo.X, depth+1).add(linOf(bo.Y, depth+1), -1)
			}
		}
	}
	name := v.Name()
	if a, ok := isLenOf(v); ok {
		name = "len(" + a.Name() + ")"
	}
	return linExpr{coef: map[string]int64{name: 1}}
}

func checkCursorOffsetAgreement(p *Program, r *Report, rule string) {
	disp, _, err := stateDispatch(p)
	if err != nil {
		r.Undec(rule, "template.transitionFunc", "", "anchor not found")
		return
	}
	seen := map[*ssa.Function]bool{}
	var fns []*ssa.Function
	var add func(f *ssa.Function, depth int)
	add = func(f *ssa.Function, depth int) {
		if f == nil || seen[f] || f.Blocks == nil || depth > 3 || f.Pkg == nil || f.Pkg.Pkg.Path() != modulePath+"/template" {
			return
		}
		seen[f] = true
		fns = append(fns, f)
		for _, b := range f.Blocks {
			for _, in := range b.Instrs {
				if c, ok := in.(ssa.CallInstruction); ok {
					add(staticCallee(c.Common()), depth+1)
				}
			}
		}
	}
	for _, f := range disp {
		add(f, 0)
	}
	sort.Slice(fns, func(i, j int) bool { return fnName(fns[i]) < fnName(fns[j]) })
	n := 0
	for _, f := range fns {
		for _, h := range loopHeaders(f) {
			in := loopBlocks(h)
			var sPhi, rPhi []*ssa.Phi
			for _, ins := range h.Instrs {
				phi, ok := ins.(*ssa.Phi)
				if !ok {
					continue
				}
				if isByteSlice(phi.Type()) || isStringish(phi.Type()) {
					sPhi = append(sPhi, phi)
				} else if isIntegerType(phi.Type()) {
					rPhi = append(rPhi, phi)
				}
			}
			if len(sPhi) != 1 || len(rPhi) == 0 {
				continue
			}
			S := sPhi[0]
			// the slice is only ever cut at the front inside the loop
			var delta func(s, rv ssa.Value, R *ssa.Phi, depth int) (linExpr, bool)
			delta = func(s, rv ssa.Value, R *ssa.Phi, depth int) (linExpr, bool) {
				if depth > 12 {
					return linExpr{}, false
				}
				// peel the counter's additions
				if bo, ok := rv.(*ssa.BinOp); ok && (bo.Op == token.ADD || bo.Op == token.SUB) {
					sign := int64(1)
					if bo.Op == token.SUB {
						sign = -1
					}
					d, ok := delta(s, bo.X, R, depth+1)
					if !ok {
						return linExpr{}, false
					}
					return d.add(linOf(bo.Y, 0), -sign), true
				}
				// peel the slice's cuts
				if sl, ok := s.(*ssa.Slice); ok {
					if sl.High != nil || sl.Max != nil {
						return linExpr{}, false
					}
					d, ok := delta(sl.X, rv, R, depth+1)
					if !ok {
						return linExpr{}, false
					}
					if sl.Low == nil {
						return d, true
					}
					return d.add(linOf(sl.Low, 0), 1), true
				}
				if s == ssa.Value(S) && rv == ssa.Value(R) {
					return linExpr{coef: map[string]int64{}}, true
				}
				ps, ok1 := s.(*ssa.Phi)
				pr, ok2 := rv.(*ssa.Phi)
				if ok1 && ok2 && ps.Block() == pr.Block() && ps != S {
					var res *linExpr
					for i := range ps.Edges {
						d, ok := delta(ps.Edges[i], pr.Edges[i], R, depth+1)
						if !ok {
							return linExpr{}, false
						}
						if res == nil {
							res = &d
						} else if !res.add(d, -1).isZero() {
							// the paths disagree: report the one that is off
							if !d.isZero() {
								return d, true
							}
							return *res, true
						}
					}
					if res != nil {
						return *res, true
					}
				}
				if ok1 && !ok2 && ps != S {
					// the slice was cut on one path only, the counter not merged here: each path on its own
					var res *linExpr
					for i := range ps.Edges {
						d, ok := delta(ps.Edges[i], rv, R, depth+1)
						if !ok {
							return linExpr{}, false
						}
						if res == nil || !d.isZero() {
							dd := d
							res = &dd
						}
					}
					if res != nil {
						return *res, true
					}
				}
				return linExpr{}, false
			}
			for _, R := range rPhi {
				matched := false
				var off *linExpr
				for i, pr := range h.Preds {
					if !in[pr] {
						continue
					}
					d, ok := delta(S.Edges[i], R.Edges[i], R, 0)
					if !ok {
						matched = false
						off = nil
						break
					}
					matched = true
					if !d.isZero() {
						dd := d
						off = &dd
					}
				}
				if !matched {
					continue
				}
				// only counters that move with the slice at all are offsets
				moves := false
				for i, pr := range h.Preds {
					if in[pr] && R.Edges[i] != ssa.Value(R) {
						moves = true
					}
				}
				if !moves {
					continue
				}
				n++
				name := R.Comment
				if name == "" {
					name = R.Name()
				}
				c := fmt.Sprintf("%s#offset:%s", strings.TrimPrefix(fnName(f), pkgTemplate+"."), name)
				if off == nil {
					r.OK(rule, c, p.Pos(f.Pos()), "every way round the loop adds to the counter exactly what it cuts off the front of the slice")
				} else {
					r.Viol(rule, c, p.Pos(f.Pos()), "a way round the loop cuts off the slice and adds to the position counter different amounts (cut − added = "+off.String()+"): the offset reported for a later match is wrong, so the escaper leaves a <script>/<style> body at the wrong byte and analyses the following markup from the wrong position", "")
				}
			}
		}
	}
	if n == 0 {
		r.OK(rule, "template#cursor-offsets", "", "no scanner keeps a position counter next to a re-sliced text")
	}
}
