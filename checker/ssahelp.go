package main

// E4: provenance trees and dominating guards over go/ssa. Pure def-use and
// dominance computations; no path is executed or handed to a solver.

import (
	"fmt"
	"go/constant"
	"go/token"
	"go/types"
	"os"
	"sort"
	"strings"

	"golang.org/x/tools/go/ssa"
)

// Expr is the provenance tree of an SSA value.
type Expr struct {
	Op    string // const param call binop unop field global load convert phi extract index slice alloc makeiface typeassert lookup freevar closure next range makeslice zero unknown
	Val   ssa.Value
	Const constant.Value
	Fn    *ssa.Function // static callee (call, closure)
	Obj   types.Object  // callee object when no body (*types.Func), or global var
	Name  string        // param/field/global/builtin/operator name
	Idx   int
	Args  []*Expr
	Type  types.Type
}

func (e *Expr) IsConstString() (string, bool) {
	if e != nil && e.Op == "const" && e.Const != nil && e.Const.Kind() == constant.String {
		return constant.StringVal(e.Const), true
	}
	return "", false
}

func (e *Expr) CalleeName() string {
	if e == nil || e.Op != "call" {
		return ""
	}
	if e.Fn != nil {
		return fnName(e.Fn)
	}
	if f, ok := e.Obj.(*types.Func); ok {
		return f.FullName()
	}
	return e.Name
}

func fnName(f *ssa.Function) string {
	if f == nil {
		return "<nil>"
	}
	if f.Object() != nil {
		if tf, ok := f.Object().(*types.Func); ok {
			n := tf.FullName()
			if c, ok := canonObj[tf]; ok {
				// report a renamed function under its baseline name
				// (also when a function became a method or the reverse: the name is rebuilt from the baseline key)
				pkgPath := ""
				if tf.Pkg() != nil {
					pkgPath = tf.Pkg().Path()
				}
				switch {
				case strings.HasPrefix(c, "(*"):
					n = "(*" + pkgPath + "." + c[2:]
				case strings.Contains(c, "."):
					i := strings.LastIndex(c, ".")
					n = "(" + pkgPath + "." + c[:i] + ")" + c[i:]
				default:
					n = pkgPath + "." + c
				}
			}
			// strings.Builder and bytes.Buffer are interchangeable append-only string accumulators for
			// the methods the rules look at; the rules are written for (*bytes.Buffer).
			if strings.HasPrefix(n, "(*strings.Builder).") {
				switch m := strings.TrimPrefix(n, "(*strings.Builder)."); m {
				case "WriteString", "WriteByte", "WriteRune", "Write", "String", "Len", "Grow", "Cap", "Reset":
					return "(*bytes.Buffer)." + m
				}
			}
			return n
		}
	}
	return f.String()
}

func (e *Expr) String() string {
	if e == nil {
		return "<nil>"
	}
	switch e.Op {
	case "const":
		if e.Const == nil {
			return "nil"
		}
		return e.Const.ExactString()
	case "param", "freevar":
		return e.Op + ":" + e.Name
	case "global":
		return "global:" + e.Name
	case "call":
		var as []string
		for _, a := range e.Args {
			as = append(as, a.String())
		}
		return e.CalleeName() + "(" + strings.Join(as, ", ") + ")"
	case "binop", "unop":
		var as []string
		for _, a := range e.Args {
			as = append(as, a.String())
		}
		return "(" + e.Name + " " + strings.Join(as, " ") + ")"
	case "field":
		return e.Args[0].String() + "." + e.Name
	case "extract":
		return fmt.Sprintf("%s#%d", e.Args[0].String(), e.Idx)
	case "zero":
		return "zero(" + types.TypeString(e.Type, shortQual) + ")"
	default:
		var as []string
		for _, a := range e.Args {
			as = append(as, a.String())
		}
		s := e.Op
		if e.Name != "" {
			s += ":" + e.Name
		}
		if len(as) > 0 {
			s += "(" + strings.Join(as, ", ") + ")"
		}
		return s
	}
}

func shortQual(p *types.Package) string { return p.Name() }

// Prov computes the provenance tree of v. Repo-internal callees that are pure
// wrappers (every return is the same expression over their parameters) are
// expanded so that helper extraction does not change the tree.
type Prov struct {
	prog     *Program
	depth    int
	summ     map[*ssa.Function]*Expr
	inSumm   map[*ssa.Function]bool
	NoInline bool
}

func NewProv(p *Program) *Prov {
	return &Prov{prog: p, summ: map[*ssa.Function]*Expr{}, inSumm: map[*ssa.Function]bool{}}
}

func (pv *Prov) Of(v ssa.Value) *Expr { return pv.of(v, 0, map[ssa.Value]bool{}) }

func (pv *Prov) of(v ssa.Value, depth int, seen map[ssa.Value]bool) *Expr {
	if v == nil {
		return &Expr{Op: "unknown", Name: "nil-value"}
	}
	if depth > 40 || seen[v] {
		return &Expr{Op: "unknown", Name: "cycle-or-depth", Val: v}
	}
	seen[v] = true
	defer delete(seen, v)
	rec := func(x ssa.Value) *Expr { return pv.of(x, depth+1, seen) }
	switch v := v.(type) {
	case *ssa.Const:
		if v.Value == nil {
			if _, ok := v.Type().Underlying().(*types.Struct); ok {
				return &Expr{Op: "zero", Val: v, Type: v.Type()}
			}
			if b, ok := v.Type().Underlying().(*types.Basic); ok && b.Info()&types.IsString != 0 {
				return &Expr{Op: "const", Val: v, Const: constant.MakeString(""), Type: v.Type()}
			}
			return &Expr{Op: "const", Val: v, Type: v.Type()} // nil
		}
		return &Expr{Op: "const", Val: v, Const: v.Value, Type: v.Type()}
	case *ssa.Parameter:
		idx := -1
		for i, p := range v.Parent().Params {
			if p == v {
				idx = i
			}
		}
		return &Expr{Op: "param", Val: v, Name: v.Name(), Idx: idx, Type: v.Type()}
	case *ssa.FreeVar:
		return &Expr{Op: "freevar", Val: v, Name: v.Name(), Type: v.Type()}
	case *ssa.Global:
		return &Expr{Op: "global", Val: v, Name: v.Pkg.Pkg.Name() + "." + canonName(v.Object()), Obj: v.Object(), Type: v.Type()}
	case *ssa.Function:
		return &Expr{Op: "func", Val: v, Fn: v, Name: fnName(v), Type: v.Type()}
	case *ssa.Call:
		return pv.call(v, v.Common(), depth, seen)
	case *ssa.BinOp:
		return &Expr{Op: "binop", Val: v, Name: v.Op.String(), Args: []*Expr{rec(v.X), rec(v.Y)}, Type: v.Type()}
	case *ssa.UnOp:
		if v.Op == token.MUL {
			// load
			switch a := v.X.(type) {
			case *ssa.Global:
				return &Expr{Op: "global", Val: v, Name: a.Pkg.Pkg.Name() + "." + canonName(a.Object()), Obj: a.Object(), Type: v.Type()}
			case *ssa.FieldAddr:
				// field (possibly nested) of a spilled local with a single whole-value store
				var valueAt func(addr ssa.Value) *Expr
				valueAt = func(addr ssa.Value) *Expr {
					switch ad := addr.(type) {
					case *ssa.Alloc:
						if st := singleStore(ad); st != nil && st.Block().Dominates(v.Block()) {
							return rec(st.Val)
						}
					case *ssa.FieldAddr:
						// a field of a freshly allocated struct that is stored exactly once
						if al, ok := ad.X.(*ssa.Alloc); ok {
							var only *ssa.Store
							n := 0
							for _, ref := range *al.Referrers() {
								if fa2, ok := ref.(*ssa.FieldAddr); ok && fa2.Field == ad.Field {
									for _, rr := range *fa2.Referrers() {
										if st, ok := rr.(*ssa.Store); ok && st.Addr == ssa.Value(fa2) {
											only = st
											n++
										}
									}
								}
							}
							if n == 1 && only.Block().Dominates(v.Block()) {
								return rec(only.Val)
							}
						}
						if base := valueAt(ad.X); base != nil {
							return &Expr{Op: "field", Val: v, Name: fieldName(ad.X.Type(), ad.Field), Idx: ad.Field, Args: []*Expr{base}, Type: ad.Type().Underlying().(*types.Pointer).Elem()}
						}
					}
					return nil
				}
				if e := valueAt(a); e != nil {
					return e
				}
				return &Expr{Op: "field", Val: v, Name: fieldName(a.X.Type(), a.Field), Idx: a.Field, Args: []*Expr{rec(a.X)}, Type: v.Type()}
			case *ssa.IndexAddr:
				return &Expr{Op: "index", Val: v, Args: []*Expr{rec(a.X), rec(a.Index)}, Type: v.Type()}
			case *ssa.Alloc:
				// a local kept in memory: if it has a single store that dominates this load, use it
				if st := singleStore(a); st != nil && st.Block().Dominates(v.Block()) {
					return rec(st.Val)
				}
				return &Expr{Op: "load", Val: v, Name: "local:" + a.Comment, Args: []*Expr{{Op: "alloc", Val: a, Name: a.Comment}}, Type: v.Type()}
			}
			return &Expr{Op: "load", Val: v, Args: []*Expr{rec(v.X)}, Type: v.Type()}
		}
		return &Expr{Op: "unop", Val: v, Name: v.Op.String(), Args: []*Expr{rec(v.X)}, Type: v.Type()}
	case *ssa.Field:
		return &Expr{Op: "field", Val: v, Name: fieldName(v.X.Type(), v.Field), Idx: v.Field, Args: []*Expr{rec(v.X)}, Type: v.Type()}
	case *ssa.FieldAddr:
		return &Expr{Op: "fieldaddr", Val: v, Name: fieldName(v.X.Type(), v.Field), Idx: v.Field, Args: []*Expr{rec(v.X)}, Type: v.Type()}
	case *ssa.Convert:
		return &Expr{Op: "convert", Val: v, Args: []*Expr{rec(v.X)}, Type: v.Type()}
	case *ssa.ChangeType:
		return &Expr{Op: "convert", Val: v, Args: []*Expr{rec(v.X)}, Type: v.Type()}
	case *ssa.ChangeInterface:
		return rec(v.X)
	case *ssa.MakeInterface:
		return &Expr{Op: "makeiface", Val: v, Args: []*Expr{rec(v.X)}, Type: v.Type()}
	case *ssa.Phi:
		e := &Expr{Op: "phi", Val: v, Type: v.Type()}
		for _, x := range v.Edges {
			e.Args = append(e.Args, rec(x))
		}
		return e
	case *ssa.Extract:
		t := rec(v.Tuple)
		// expanded wrapper summaries return tuples as "tuple" nodes
		if t.Op == "tuple" && v.Index < len(t.Args) {
			return t.Args[v.Index]
		}
		return &Expr{Op: "extract", Val: v, Idx: v.Index, Args: []*Expr{t}, Type: v.Type()}
	case *ssa.Slice:
		e := &Expr{Op: "slice", Val: v, Type: v.Type(), Args: []*Expr{rec(v.X)}}
		for _, x := range []ssa.Value{v.Low, v.High} {
			if x != nil {
				e.Args = append(e.Args, rec(x))
			} else {
				e.Args = append(e.Args, &Expr{Op: "none"})
			}
		}
		return e
	case *ssa.Index:
		return &Expr{Op: "index", Val: v, Args: []*Expr{rec(v.X), rec(v.Index)}, Type: v.Type()}
	case *ssa.IndexAddr:
		return &Expr{Op: "indexaddr", Val: v, Args: []*Expr{rec(v.X), rec(v.Index)}, Type: v.Type()}
	case *ssa.Lookup:
		return &Expr{Op: "lookup", Val: v, Args: []*Expr{rec(v.X), rec(v.Index)}, Type: v.Type()}
	case *ssa.TypeAssert:
		return &Expr{Op: "typeassert", Val: v, Name: types.TypeString(v.AssertedType, shortQual), Args: []*Expr{rec(v.X)}, Type: v.Type()}
	case *ssa.Alloc:
		return &Expr{Op: "alloc", Val: v, Name: v.Comment, Type: v.Type()}
	case *ssa.MakeClosure:
		e := &Expr{Op: "closure", Val: v, Fn: v.Fn.(*ssa.Function), Type: v.Type()}
		for _, b := range v.Bindings {
			e.Args = append(e.Args, rec(b))
		}
		return e
	case *ssa.Next:
		return &Expr{Op: "next", Val: v, Args: []*Expr{rec(v.Iter)}, Type: v.Type()}
	case *ssa.Range:
		return &Expr{Op: "range", Val: v, Args: []*Expr{rec(v.X)}, Type: v.Type()}
	case *ssa.MakeSlice:
		return &Expr{Op: "makeslice", Val: v, Type: v.Type()}
	case *ssa.MakeMap:
		return &Expr{Op: "makemap", Val: v, Type: v.Type()}
	}
	return &Expr{Op: "unknown", Val: v, Name: fmt.Sprintf("%T", v), Type: v.Type()}
}

func singleStore(a *ssa.Alloc) *ssa.Store {
	var st *ssa.Store
	for _, r := range *a.Referrers() {
		switch r := r.(type) {
		case *ssa.Store:
			if r.Addr == a {
				if st != nil {
					return nil
				}
				st = r
			} else {
				return nil // address escapes into a store
			}
		case *ssa.UnOp:
		case *ssa.DebugRef:
		case *ssa.FieldAddr:
			// only loads through the (possibly nested) field address
			if !onlyLoaded(r, 0) {
				return nil
			}
		default:
			return nil
		}
	}
	return st
}

func onlyLoaded(fa *ssa.FieldAddr, depth int) bool {
	if depth > 4 {
		return false
	}
	for _, rr := range *fa.Referrers() {
		switch x := rr.(type) {
		case *ssa.UnOp, *ssa.DebugRef:
		case *ssa.FieldAddr:
			if !onlyLoaded(x, depth+1) {
				return false
			}
		default:
			return false
		}
	}
	return true
}

func fieldName(t types.Type, i int) string {
	if p, ok := t.Underlying().(*types.Pointer); ok {
		t = p.Elem()
	}
	if s, ok := t.Underlying().(*types.Struct); ok && i < s.NumFields() {
		return canonName(s.Field(i))
	}
	return fmt.Sprintf("f%d", i)
}

func (pv *Prov) call(v ssa.Value, c *ssa.CallCommon, depth int, seen map[ssa.Value]bool) *Expr {
	e := &Expr{Op: "call", Val: v, Type: v.Type()}
	rec := func(x ssa.Value) *Expr { return pv.of(x, depth+1, seen) }
	if c.IsInvoke() {
		e.Name = "invoke:" + c.Method.FullName()
		e.Obj = c.Method
		e.Args = append(e.Args, rec(c.Value))
		for _, a := range c.Args {
			e.Args = append(e.Args, rec(a))
		}
		return e
	}
	for i, a := range c.Args {
		// expand a variadic argument list built in place
		if i == len(c.Args)-1 && c.Signature().Variadic() {
			if _, isBuiltin := c.Value.(*ssa.Builtin); !isBuiltin {
				if elems, ok := variadicArgs(a); ok {
					for _, el := range elems {
						e.Args = append(e.Args, rec(unIface(el)))
					}
					continue
				}
			}
		}
		e.Args = append(e.Args, rec(a))
	}
	switch f := c.Value.(type) {
	case *ssa.Builtin:
		e.Name = "builtin:" + f.Name()
		return e
	case *ssa.Function:
		e.Fn = f
		if f.Object() != nil {
			e.Obj = f.Object()
		}
		if !pv.NoInline && f.Pkg != nil && strings.HasPrefix(f.Pkg.Pkg.Path(), modulePath) && f.Blocks != nil {
			if s := pv.summary(f); s != nil {
				return substParams(s, e.Args)
			}
		}
		return e
	case *ssa.MakeClosure:
		e.Fn = f.Fn.(*ssa.Function)
		e.Name = "closure"
		return e
	}
	e.Name = "dynamic"
	e.Args = append([]*Expr{rec(c.Value)}, e.Args...)
	return e
}

// summary returns the single return expression of a wrapper function in terms
// of its parameters, or nil if the function is not a pure wrapper (more than
// one distinct return expression, or any branch).
func (pv *Prov) summary(f *ssa.Function) *Expr {
	if s, ok := pv.summ[f]; ok {
		return s
	}
	if pv.inSumm[f] {
		return nil
	}
	pv.inSumm[f] = true
	defer delete(pv.inSumm, f)
	var res *Expr
	if len(f.Blocks) == 1 && len(f.AnonFuncs) == 0 {
		if ret, ok := f.Blocks[0].Instrs[len(f.Blocks[0].Instrs)-1].(*ssa.Return); ok {
			// no stores, no side-effecting instructions other than calls in the chain
			pure := true
			for _, in := range f.Blocks[0].Instrs {
				switch x := in.(type) {
				case *ssa.Store:
					if al, ok := x.Addr.(*ssa.Alloc); !ok || al.Heap {
						pure = false
					}
				case *ssa.MapUpdate, *ssa.Send, *ssa.Go, *ssa.Defer, *ssa.Panic:
					pure = false
				}
			}
			if pure && len(ret.Results) >= 1 {
				if len(ret.Results) == 1 {
					res = pv.of(ret.Results[0], 0, map[ssa.Value]bool{})
				} else {
					t := &Expr{Op: "tuple"}
					for _, r := range ret.Results {
						t.Args = append(t.Args, pv.of(r, 0, map[ssa.Value]bool{}))
					}
					res = t
				}
				if hasOp(res, "unknown", "alloc", "load", "freevar") {
					res = nil
				}
			}
		}
	}
	pv.summ[f] = res
	return res
}

func hasOp(e *Expr, ops ...string) bool {
	if e == nil {
		return false
	}
	for _, o := range ops {
		if e.Op == o {
			return true
		}
	}
	for _, a := range e.Args {
		if hasOp(a, ops...) {
			return true
		}
	}
	return false
}

func substParams(e *Expr, args []*Expr) *Expr {
	if e == nil {
		return nil
	}
	if e.Op == "param" && e.Idx >= 0 && e.Idx < len(args) {
		return args[e.Idx]
	}
	c := *e
	c.Args = nil
	for _, a := range e.Args {
		c.Args = append(c.Args, substParams(a, args))
	}
	return &c
}

// Leaves collects the leaves of a provenance tree.
func (e *Expr) Walk(f func(*Expr) bool) {
	if e == nil || !f(e) {
		return
	}
	for _, a := range e.Args {
		a.Walk(f)
	}
}

// ---- guards -------------------------------------------------------------------

// Guard is a branch condition that holds (Pol=true) or fails (Pol=false) on
// every path from the function entry to a block.
type Guard struct {
	Cond ssa.Value
	Pol  bool
	At   *ssa.BasicBlock
}

func edgeDominates(d, s, b *ssa.BasicBlock) bool {
	if !s.Dominates(b) {
		return false
	}
	for _, p := range s.Preds {
		if p == d {
			continue
		}
		if !s.Dominates(p) {
			return false
		}
	}
	return true
}

// GuardsOf returns the dominating guards of block b, outermost first.
func GuardsOf(b *ssa.BasicBlock) []Guard {
	var out []Guard
	fn := b.Parent()
	for _, d := range fn.DomPreorder() {
		if len(d.Instrs) == 0 {
			continue
		}
		iff, ok := d.Instrs[len(d.Instrs)-1].(*ssa.If)
		if !ok || len(d.Succs) != 2 || d.Succs[0] == d.Succs[1] {
			continue
		}
		if !d.Dominates(b) {
			continue
		}
		if edgeDominates(d, d.Succs[0], b) {
			out = append(out, Guard{iff.Cond, true, d})
		} else if edgeDominates(d, d.Succs[1], b) {
			out = append(out, Guard{iff.Cond, false, d})
		}
	}
	return out
}

// EdgeGuards: the guards that hold when control passes from pred to succ.
func EdgeGuards(pred, succ *ssa.BasicBlock) []Guard {
	out := GuardsOf(pred)
	if len(pred.Instrs) > 0 {
		if iff, ok := pred.Instrs[len(pred.Instrs)-1].(*ssa.If); ok && len(pred.Succs) == 2 && pred.Succs[0] != pred.Succs[1] {
			if pred.Succs[0] == succ {
				out = append(out, Guard{iff.Cond, true, pred})
			} else if pred.Succs[1] == succ {
				out = append(out, Guard{iff.Cond, false, pred})
			}
		}
	}
	return out
}

// Atom is a normalised guard: a provenance tree plus polarity, with negations
// and comparisons against boolean/nil constants folded.
type Atom struct {
	E   *Expr
	Pol bool
}

func (a Atom) String() string {
	if a.Pol {
		return a.E.String()
	}
	return "!" + a.E.String()
}

func (pv *Prov) Atoms(b *ssa.BasicBlock) []Atom {
	var out []Atom
	for _, g := range GuardsOf(b) {
		out = append(out, normAtom(pv.Of(g.Cond), g.Pol))
	}
	return out
}

// indexAsContains rewrites strings.IndexAny(x, k) >= 0 (and the other spellings of "found" /
// "not found" of the strings.Index family) as the equivalent strings.Contains* call.
func indexAsContains(e *Expr, pol bool) (*Expr, bool, bool) {
	if e.Op != "binop" || len(e.Args) != 2 {
		return nil, false, false
	}
	call, k := e.Args[0], e.Args[1]
	op := e.Name
	if call.Op != "call" {
		call, k = k, call
		switch op {
		case "<":
			op = ">"
		case "<=":
			op = ">="
		case ">":
			op = "<"
		case ">=":
			op = "<="
		}
	}
	if call.Op != "call" || k.Op != "const" || k.Const == nil || k.Const.Kind() != constant.Int {
		return nil, false, false
	}
	kv, _ := constant.Int64Val(k.Const)
	var found bool
	switch {
	case (op == ">=" && kv == 0) || (op == ">" && kv == -1) || (op == "!=" && kv == -1):
		found = true
	case (op == "<" && kv == 0) || (op == "<=" && kv == -1) || (op == "==" && kv == -1):
		found = false
	default:
		return nil, false, false
	}
	to := map[string]string{"strings.IndexAny": "strings.ContainsAny", "strings.LastIndexAny": "strings.ContainsAny", "strings.Index": "strings.Contains", "strings.LastIndex": "strings.Contains",
		"strings.IndexByte": "strings.ContainsRune", "strings.IndexRune": "strings.ContainsRune", "strings.LastIndexByte": "strings.ContainsRune"}[call.CalleeName()]
	if to == "" {
		return nil, false, false
	}
	ne := &Expr{Op: "call", Name: to, Args: call.Args, Val: e.Val, Type: e.Type}
	if !found {
		pol = !pol
	}
	return ne, pol, true
}

func normAtom(e *Expr, pol bool) Atom {
	for {
		if ne, np, ok := indexAsContains(e, pol); ok {
			return Atom{ne, np}
		}
		if e.Op == "unop" && e.Name == "!" {
			e, pol = e.Args[0], !pol
			continue
		}
		if e.Op == "binop" && (e.Name == "==" || e.Name == "!=") {
			for i := 0; i < 2; i++ {
				c, o := e.Args[i], e.Args[1-i]
				if c.Op == "const" && c.Const != nil && c.Const.Kind() == constant.Bool {
					bv := constant.BoolVal(c.Const)
					if (e.Name == "==") != bv {
						pol = !pol
					}
					e = o
					goto next
				}
			}
			if e.Name == "!=" {
				e = &Expr{Op: "binop", Name: "==", Args: e.Args, Val: e.Val, Type: e.Type}
				pol = !pol
			}
		}
		return Atom{e, pol}
	next:
	}
}

// ---- misc helpers ---------------------------------------------------------------

// Returns lists the Return instructions of f.
func Returns(f *ssa.Function) []*ssa.Return {
	var out []*ssa.Return
	for _, b := range f.Blocks {
		if len(b.Instrs) == 0 {
			continue
		}
		if r, ok := b.Instrs[len(b.Instrs)-1].(*ssa.Return); ok {
			out = append(out, r)
		}
	}
	return out
}

// PanicBlocks: blocks ending in panic.
func endsInPanic(b *ssa.BasicBlock) bool {
	if len(b.Instrs) == 0 {
		return false
	}
	_, ok := b.Instrs[len(b.Instrs)-1].(*ssa.Panic)
	return ok
}

// FieldStores finds the stores into field `field` of named struct type `T`
// (package path pkgPath) anywhere in fn.
type FieldStore struct {
	Store *ssa.Store
	Fn    *ssa.Function
	Base  ssa.Value // the struct address
}

func namedStructField(t types.Type) (*types.Named, *types.Struct) {
	if p, ok := t.Underlying().(*types.Pointer); ok {
		t = p.Elem()
	}
	n, _ := t.(*types.Named)
	s, _ := t.Underlying().(*types.Struct)
	return n, s
}

func FieldStoresIn(fn *ssa.Function, match func(n *types.Named, field string) bool) []FieldStore {
	var out []FieldStore
	for _, b := range fn.Blocks {
		for _, in := range b.Instrs {
			st, ok := in.(*ssa.Store)
			if !ok {
				continue
			}
			fa, ok := st.Addr.(*ssa.FieldAddr)
			if !ok {
				continue
			}
			n, s := namedStructField(fa.X.Type())
			if n == nil || s == nil {
				continue
			}
			if match(n, s.Field(fa.Field).Name()) {
				out = append(out, FieldStore{st, fn, fa.X})
			}
		}
	}
	return out
}

func isNamed(t types.Type, pkgPath, name string) bool {
	if p, ok := t.(*types.Pointer); ok {
		t = p.Elem()
	}
	n, ok := t.(*types.Named)
	if !ok {
		return false
	}
	o := n.Obj()
	if pkgPath == "bytes" && name == "Buffer" && o.Name() == "Builder" && o.Pkg() != nil && o.Pkg().Path() == "strings" {
		return true // see fnName
	}
	return o.Name() == name && o.Pkg() != nil && o.Pkg().Path() == pkgPath
}

// calleeIs reports whether e is a call to the function pkgPath.name (or
// method "(recv).name" given as FullName).
func calleeIs(e *Expr, full string) bool {
	return e != nil && e.Op == "call" && e.CalleeName() == full
}

func sortedKeys[V any](m map[string]V) []string {
	var ks []string
	for k := range m {
		ks = append(ks, k)
	}
	sort.Strings(ks)
	return ks
}

// regexMatchAtom recognises pattern.MatchString(x) / pattern.Match* on a
// package-level *regexp.Regexp variable; returns the global's name and the
// matched expression.
func regexMatchCall(e *Expr) (global string, arg *Expr, method string, ok bool) {
	if e == nil || e.Op != "call" {
		return
	}
	n := e.CalleeName()
	const pfx = "(*regexp.Regexp)."
	if !strings.HasPrefix(n, pfx) || len(e.Args) < 2 {
		return
	}
	recv := e.Args[0]
	if recv.Op != "global" {
		return
	}
	return recv.Name, e.Args[1], strings.TrimPrefix(n, pfx), true
}

// variadicArgs returns the elements of the variadic slice argument v when it
// is built in place (new [n]T; stores; slice), in index order.
func variadicArgs(v ssa.Value) ([]ssa.Value, bool) {
	sl, ok := v.(*ssa.Slice)
	if !ok {
		if c, ok := v.(*ssa.Const); ok && c.Value == nil {
			return nil, true // nil slice: no variadic arguments
		}
		return nil, false
	}
	al, ok := sl.X.(*ssa.Alloc)
	if !ok {
		return nil, false
	}
	arr, ok := al.Type().Underlying().(*types.Pointer).Elem().Underlying().(*types.Array)
	if !ok {
		return nil, false
	}
	out := make([]ssa.Value, arr.Len())
	for _, ref := range *al.Referrers() {
		switch r := ref.(type) {
		case *ssa.IndexAddr:
			idx, ok := r.Index.(*ssa.Const)
			if !ok {
				return nil, false
			}
			i, _ := constant.Int64Val(idx.Value)
			for _, rr := range *r.Referrers() {
				st, ok := rr.(*ssa.Store)
				if !ok || st.Addr != r {
					return nil, false
				}
				if out[i] != nil {
					return nil, false
				}
				out[i] = st.Val
			}
		case *ssa.Slice:
		default:
			return nil, false
		}
	}
	for _, o := range out {
		if o == nil {
			return nil, false
		}
	}
	return out, true
}

// unIface strips MakeInterface.
func unIface(v ssa.Value) ssa.Value {
	if m, ok := v.(*ssa.MakeInterface); ok {
		return m.X
	}
	return v
}

// parseFormat splits a fmt format into literal pieces and verbs ("%s", "%06X"…).
func parseFormat(f string) (pieces, verbs []string) {
	cur := ""
	for i := 0; i < len(f); i++ {
		if f[i] != '%' {
			cur += string(f[i])
			continue
		}
		if i+1 < len(f) && f[i+1] == '%' {
			cur += "%"
			i++
			continue
		}
		j := i + 1
		for j < len(f) && strings.IndexByte("+-# 0123456789.[]*", f[j]) >= 0 {
			j++
		}
		if j < len(f) {
			verbs = append(verbs, f[i:j+1])
		} else {
			verbs = append(verbs, f[i:])
		}
		pieces = append(pieces, cur)
		cur = ""
		i = j
	}
	pieces = append(pieces, cur)
	return
}

// helperOnlyOf: h is an unexported function all of whose references are static calls from
// functions accepted by pred, or from other such helpers (three levels).
func helperOnlyOf(p *Program, h *ssa.Function, pred func(f *ssa.Function) bool, depth int) bool {
	if h == nil || h.Object() == nil || h.Object().Exported() || depth > 3 {
		return false
	}
	n := 0
	for _, f := range p.SrcFuncs() {
		for _, b := range f.Blocks {
			for _, in := range b.Instrs {
				for _, op := range in.Operands(nil) {
					if *op != ssa.Value(h) {
						continue
					}
					cl, isCall := in.(*ssa.Call)
					if !isCall || staticCallee(cl.Common()) != h {
						return false // used as a value
					}
					root := f
					for root.Parent() != nil {
						root = root.Parent()
					}
					if root == h {
						continue
					}
					n++
					if !pred(root) && !helperOnlyOf(p, root, pred, depth+1) {
						return false
					}
				}
			}
		}
	}
	return n > 0
}

// zeroResultAt: result #idx of this return is the zero value: the zero constant, or a local (a named result) that
// no store can have written on any way to this return.
func zeroResultAt(ret *ssa.Return, idx int) bool {
	if idx >= len(ret.Results) {
		return false
	}
	v := ret.Results[idx]
	if os.Getenv("ZERO_DEBUG") != "" {
		fmt.Fprintf(os.Stderr, "zeroResultAt %s: %T %s\n", ret.Parent().Name(), v, v)
		if u, ok := v.(*ssa.UnOp); ok {
			if al, ok := u.X.(*ssa.Alloc); ok {
				for _, ref := range *al.Referrers() {
					fmt.Fprintf(os.Stderr, "   ref %T %s (block %d)\n", ref, ref, ref.Block().Index)
				}
			}
		}
	}
	if k, ok := v.(*ssa.Const); ok {
		return k.Value == nil
	}
	u, ok := v.(*ssa.UnOp)
	if !ok || u.Op != token.MUL {
		return false
	}
	al, ok := u.X.(*ssa.Alloc)
	if !ok {
		return false
	}
	reaches := func(in ssa.Instruction) bool {
		if in.Block() == ret.Block() {
			return before(in, ret)
		}
		return forwardReach(in.Block(), ret.Block())
	}
	var check func(addr ssa.Value, depth int) bool
	check = func(addr ssa.Value, depth int) bool {
		if depth > 3 {
			return false
		}
		for _, ref := range *addr.Referrers() {
			switch x := ref.(type) {
			case *ssa.Store:
				if x.Addr == addr && reaches(x) && !selfStore(x) {
					// storing the zero value again (an explicit "T{}" in a return with named results) changes nothing
					if k, isK := x.Val.(*ssa.Const); !isK || k.Value != nil || depth > 0 {
						return false
					}
				}
				if x.Val == addr {
					return false // the address escapes
				}
			case *ssa.FieldAddr:
				if !check(x, depth+1) {
					return false
				}
			case *ssa.IndexAddr:
				if !check(x, depth+1) {
					return false
				}
			case *ssa.UnOp, *ssa.DebugRef:
			case ssa.CallInstruction:
				// handed to a call (a deferred closure captures it through a free variable, not here)
				if reaches(x) {
					return false
				}
			default:
				return false
			}
		}
		return true
	}
	// a closure that captures the result (a deferred function that assigns it) may write it
	for _, ref := range *al.Referrers() {
		if _, isMC := ref.(*ssa.MakeClosure); isMC {
			return false
		}
	}
	return check(al, 0)
}

// pathResult: what one acyclic path to a return leaves in a pair of named results (value, error).
type pathResult struct {
	ValStore  *ssa.Store // the last store to the value result on the path (nil: still the zero value)
	ValZero   bool       // the value result is the zero value on this path
	ErrNil    bool       // the error result is certainly nil on this path
	ErrNonNil bool       // the error result is certainly non-nil on this path
}

// pairedResults follows every path of the loop-free function of ret to ret and reports, per path, the state of
// the value result (a named result kept in a variable) and of the error result (a variable, or an SSA value whose
// phis are resolved by the path) that ret returns. ok is false when the value result is not a load of a local
// variable, the function has a loop, or a result variable is reachable by something other than direct loads and stores.
func pairedResults(ret *ssa.Return, idxVal, idxErr int) ([]pathResult, bool) {
	fn := ret.Parent()
	if idxVal >= len(ret.Results) || idxErr >= len(ret.Results) || hasLoop(fn) {
		return nil, false
	}
	allocOf := func(v ssa.Value) *ssa.Alloc {
		u, ok := v.(*ssa.UnOp)
		if !ok || u.Op != token.MUL {
			return nil
		}
		al, _ := u.X.(*ssa.Alloc)
		return al
	}
	av, ae := allocOf(ret.Results[idxVal]), allocOf(ret.Results[idxErr])
	if av == nil {
		return nil, false
	}
	for _, al := range []*ssa.Alloc{av, ae} {
		if al == nil {
			continue
		}
		for _, ref := range *al.Referrers() {
			switch x := ref.(type) {
			case *ssa.UnOp, *ssa.DebugRef:
			case *ssa.Store:
				if x.Val == ssa.Value(al) {
					return nil, false
				}
			case *ssa.FieldAddr:
				// a composite literal assigned to the result is built in place: stores to its fields
				for _, r2 := range *x.Referrers() {
					if st, ok := r2.(*ssa.Store); !ok || st.Addr != ssa.Value(x) {
						if _, dbg := r2.(*ssa.DebugRef); !dbg {
							return nil, false
						}
					}
				}
			default:
				return nil, false
			}
		}
	}
	type state struct {
		valStore          *ssa.Store
		errNil, errNonNil bool
		cur               map[ssa.Value]bool // loads of the error variable that still show its current value
		known             map[ssa.Value]int  // values tested against nil on the path: 1 nil, 2 non-nil
		path              []*ssa.BasicBlock
	}
	var out []pathResult
	paths := 0
	resolve := func(v ssa.Value, path []*ssa.BasicBlock) ssa.Value {
		for i := 0; i < 6; i++ {
			ph, ok := v.(*ssa.Phi)
			if !ok {
				break
			}
			found := false
			for k := len(path) - 1; k >= 1 && !found; k-- {
				if path[k] == ph.Block() {
					for j, pr := range ph.Block().Preds {
						if pr == path[k-1] {
							v, found = ph.Edges[j], true
						}
					}
					break
				}
			}
			if !found {
				break
			}
		}
		return v
	}
	var walk func(b *ssa.BasicBlock, st state, depth int) bool
	walk = func(b *ssa.BasicBlock, st state, depth int) bool {
		paths++
		if depth > 200 || paths > 4000 {
			return false
		}
		cur := map[ssa.Value]bool{}
		for k := range st.cur {
			cur[k] = true
		}
		st.cur = cur
		known := map[ssa.Value]int{}
		for k, v := range st.known {
			known[k] = v
		}
		st.known = known
		st.path = append(append([]*ssa.BasicBlock{}, st.path...), b)
		for _, in := range b.Instrs {
			switch x := in.(type) {
			case *ssa.UnOp:
				if ae != nil && x.Op == token.MUL && x.X == ssa.Value(ae) {
					st.cur[x] = true
				}
			case *ssa.Store:
				if selfStore(x) {
					continue
				}
				if x.Addr == ssa.Value(av) {
					st.valStore = x
					if isZeroConst(x.Val) {
						st.valStore = nil
					}
				}
				if fa, ok := x.Addr.(*ssa.FieldAddr); ok && fa.X == ssa.Value(av) {
					st.valStore = x // a field of the result is written in place
				}
				if ae != nil && x.Addr == ssa.Value(ae) {
					st.cur = map[ssa.Value]bool{}
					st.errNil, st.errNonNil = false, false
					if k, ok := x.Val.(*ssa.Const); ok && k.Value == nil {
						st.errNil = true
					} else if provenError(unIface(x.Val)) || nonNilInterface(x.Val) {
						st.errNonNil = true
					}
				}
			case *ssa.Return:
				if x == ret {
					pr := pathResult{ValStore: st.valStore, ValZero: st.valStore == nil, ErrNil: st.errNil, ErrNonNil: st.errNonNil}
					if ae == nil {
						ev := resolve(ret.Results[idxErr], st.path)
						pr.ErrNil, pr.ErrNonNil = false, false
						if k, ok := ev.(*ssa.Const); ok && k.Value == nil {
							pr.ErrNil = true
						} else if provenError(unIface(ev)) || nonNilInterface(ev) {
							pr.ErrNonNil = true
						} else if st.known[ev] == 1 {
							pr.ErrNil = true
						} else if st.known[ev] == 2 {
							pr.ErrNonNil = true
						}
					}
					out = append(out, pr)
				}
				return true
			case *ssa.If:
				tSt, fSt := st, st
				if bo, ok := x.Cond.(*ssa.BinOp); ok && (bo.Op == token.EQL || bo.Op == token.NEQ) {
					if k, ok := bo.Y.(*ssa.Const); ok && k.Value == nil {
						tv, fv := 1, 2
						if bo.Op == token.NEQ {
							tv, fv = 2, 1
						}
						if st.cur[bo.X] {
							tSt.errNil, tSt.errNonNil = tv == 1, tv == 2
							fSt.errNil, fSt.errNonNil = fv == 1, fv == 2
						}
						subj := resolve(bo.X, st.path)
						tk, fk := map[ssa.Value]int{}, map[ssa.Value]int{}
						for k, v := range st.known {
							tk[k], fk[k] = v, v
						}
						tk[subj], fk[subj] = tv, fv
						tSt.known, fSt.known = tk, fk
					}
				}
				return walk(b.Succs[0], tSt, depth+1) && walk(b.Succs[1], fSt, depth+1)
			case *ssa.Jump:
				return walk(b.Succs[0], st, depth+1)
			case *ssa.Panic:
				return true
			}
		}
		return true
	}
	// the named results start as zero / nil
	if !walk(fn.Blocks[0], state{errNil: true, cur: map[ssa.Value]bool{}, known: map[ssa.Value]int{}}, 0) {
		return nil, false
	}
	return out, true
}
