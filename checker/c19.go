package main

import (
	"fmt"
	"go/ast"
	"go/token"
	"go/types"
	"os"
	"path/filepath"
	"sort"
	"strings"

	"golang.org/x/tools/go/packages"
	"golang.org/x/tools/go/ssa"
)

func init() { register("C19", "other", runC19) }

var safeTypeDecls = map[string][]string{
	"":         {"HTML", "Script", "Style", "StyleSheet", "URL", "URLSet", "TrustedResourceURL", "Identifier"},
	"template": {"TrustedSource", "TrustedTemplate", "TrustedFS"},
}

// statement table (C19.R3): function → gate-typed parameter indices
var gateTable = map[string][]int{
	"safehtml.ScriptFromConstant":                   {0},
	"safehtml.ScriptFromDataAndConstant":            {0, 2},
	"safehtml.StyleFromConstant":                    {0},
	"safehtml.StyleSheetFromConstant":               {0},
	"safehtml.TrustedResourceURLFromConstant":       {0},
	"safehtml.TrustedResourceURLFormatFromConstant": {0},
	"safehtml.IdentifierFromConstant":               {0},
	"safehtml.IdentifierFromConstantPrefix":         {0},
	"template.(*Template).Parse":                    {0},
	"template.ParseFiles":                           {0},
	"template.(*Template).ParseFiles":               {0},
	"template.ParseGlob":                            {0},
	"template.(*Template).ParseGlob":                {0},
	"template.MakeTrustedTemplate":                  {0},
	"template.TrustedSourceFromConstant":            {0},
	"template.TrustedSourceFromConstantDir":         {0},
	"template.TrustedSourceFromEnvVar":              {0},
	"template.MustParseAndExecuteToHTML":            {0},
}

type gateParam struct {
	pkg  string // "safehtml" | "template"
	fn   *types.Func
	idx  int
	name string // display
}

func isGateType(t types.Type, gates map[*types.TypeName]bool) bool {
	if s, ok := t.(*types.Slice); ok {
		t = s.Elem()
	}
	n, ok := t.(*types.Named)
	return ok && gates[n.Obj()]
}

func typeMentionsGate(t types.Type, gates map[*types.TypeName]bool, seen map[types.Type]bool) bool {
	if t == nil || seen[t] {
		return false
	}
	seen[t] = true
	switch x := t.(type) {
	case *types.Named:
		if gates[x.Obj()] {
			return true
		}
		if x.Obj().Pkg() == nil || !strings.HasPrefix(x.Obj().Pkg().Path(), modulePath) {
			return false
		}
		return typeMentionsGate(x.Underlying(), gates, seen)
	case *types.Pointer:
		return typeMentionsGate(x.Elem(), gates, seen)
	case *types.Slice:
		return typeMentionsGate(x.Elem(), gates, seen)
	case *types.Array:
		return typeMentionsGate(x.Elem(), gates, seen)
	case *types.Map:
		return typeMentionsGate(x.Key(), gates, seen) || typeMentionsGate(x.Elem(), gates, seen)
	case *types.Chan:
		return typeMentionsGate(x.Elem(), gates, seen)
	case *types.Signature:
		for i := 0; i < x.Params().Len(); i++ {
			if typeMentionsGate(x.Params().At(i).Type(), gates, seen) {
				return true
			}
		}
		for i := 0; i < x.Results().Len(); i++ {
			if typeMentionsGate(x.Results().At(i).Type(), gates, seen) {
				return true
			}
		}
	case *types.Struct:
		for i := 0; i < x.NumFields(); i++ {
			if x.Field(i).Exported() && typeMentionsGate(x.Field(i).Type(), gates, seen) {
				return true
			}
		}
	case *types.Interface:
		for i := 0; i < x.NumMethods(); i++ {
			if typeMentionsGate(x.Method(i).Type(), gates, seen) {
				return true
			}
		}
	}
	return false
}

func runC19(p *Program, r *Report) {
	r.Trusted = []string{"the Go type checker (go/types) as the decision procedure for 'does not compile'", "go/ssa for the provenance of constructed values", "the Go rule that an untyped constant converts implicitly to a defined string type while typed values need a conversion that clients cannot write for an unexported type"}
	r.NotDecided = []string{"reflection and unsafe (outside the type system)", "Template.Tree is an exported field through which a client can edit a parse tree (observation O4: the statement is about values of safe types)"}
	r.Explain = "Gate types: the parameter type of the *FromConstant family is, in each package, a defined unexported string type without methods that occurs in the exported API only as a (variadic) parameter type; the statement's 19 (function, parameter) pairs have it. Safe types are structs with only unexported, non-embedded fields, no exported pointer-receiver methods, written only by composite literals in their package. Every construction site's stored value has only permitted provenance leaves. Raw constructors are unexported and referenced only from init assignments to internal/…/raw variables, which only the conversion packages import. No exported mutable package state. A corpus of client programs is type-checked against the current tree: the must-fail witnesses have an error at the marked argument, the controls compile."
	for _, m := range []struct {
		r string
		n int
	}{{"C19.R1", 2}, {"C19.R2", 2}, {"C19.R3", 18}, {"C19.R4", 11}, {"C19.R5", 30}, {"C19.R6", 3}, {"C19.R7", 3}, {"C19.R8", 25}, {"C19.R9", 20}, {"C19.R10", 1}, {"C19.R11", 1}, {"C19.R12", 1}, {"C19.R13", 1}} {
		r.Min(m.r, m.n)
	}
	checkSafeTypeConvertibility(p, r)
	checkFileSystemProvenance(p, r, "C19.R10")
	gates := map[*types.TypeName]bool{}
	var gps []gateParam
	// ---- R1 gate types ----------------------------------------------------------------------
	for rel, short := range map[string]string{"": "safehtml", "template": "template"} {
		pk := p.Pkg(rel)
		// discover: the parameter type of the functions in the statement table
		var gate *types.TypeName
		for key, idxs := range gateTable {
			if !strings.HasPrefix(key, short+".") {
				continue
			}
			f := lookupFunc(pk.Types, strings.TrimPrefix(key, short+"."))
			if f == nil {
				r.Viol("C19.R3", key, "", "function named by the statement does not exist", "")
				continue
			}
			sig := f.Type().(*types.Signature)
			for _, i := range idxs {
				if i >= sig.Params().Len() {
					continue
				}
				t := sig.Params().At(i).Type()
				if s, ok := t.(*types.Slice); ok {
					t = s.Elem()
				}
				if n, ok := t.(*types.Named); ok && n.Obj().Pkg() == pk.Types && !n.Obj().Exported() {
					gate = n.Obj()
				}
			}
		}
		c := short + "#gate-type"
		if gate == nil {
			r.Undec("C19.R1", c, "", "no unexported parameter type found on the *FromConstant family")
			continue
		}
		gates[gate] = true
		n := gate.Type().(*types.Named)
		b, isBasic := n.Underlying().(*types.Basic)
		// methods with exported names could satisfy interfaces of other packages (fmt.Stringer, error, fmt.Formatter,
		// json.Marshaler …) and change how a value of the gate type is rendered; unexported ones cannot
		exportedMethods := 0
		for i := 0; i < n.NumMethods(); i++ {
			if n.Method(i).Exported() {
				exportedMethods++
			}
		}
		okGate := !gate.IsAlias() && !gate.Exported() && isBasic && b.Kind() == types.String && exportedMethods == 0
		r.Check(okGate, "C19.R1", c, p.Pos(gate.Pos()), fmt.Sprintf("%s.%s is a defined, unexported string type without exported methods", short, gate.Name()), fmt.Sprintf("%s.%s is not a defined unexported string type without exported methods (alias=%v exported=%v exported methods=%d)", short, gate.Name(), gate.IsAlias(), gate.Exported(), exportedMethods))
	}
	checkGateManufacture(p, r, "C19.R11", gates)
	checkNoExportedTreeAccess(p, r, "C19.R12")
	checkExportedTreeOnlyTested(p, r, "C19.R13")
	// ---- R2 surface scan ------------------------------------------------------------------------
	for rel, short := range map[string]string{"": "safehtml", "template": "template", "uncheckedconversions": "uncheckedconversions", "legacyconversions": "legacyconversions", "testconversions": "testconversions", "template/uncheckedconversions": "template/uncheckedconversions", "internal/safehtmlutil": "safehtmlutil"} {
		pk := p.Pkg(rel)
		if pk == nil {
			continue
		}
		var bad []string
		sc := pk.Types.Scope()
		for _, name := range sc.Names() {
			o := sc.Lookup(name)
			if !o.Exported() {
				continue
			}
			checkSig := func(display string, sig *types.Signature, fobj *types.Func) {
				for i := 0; i < sig.Params().Len(); i++ {
					t := sig.Params().At(i).Type()
					if isGateType(t, gates) {
						if fobj != nil {
							gps = append(gps, gateParam{short, fobj, i, display})
						}
						continue
					}
					if typeMentionsGate(t, gates, map[types.Type]bool{}) {
						bad = append(bad, display+": gate type nested in parameter "+sig.Params().At(i).Name())
					}
				}
				for i := 0; i < sig.Results().Len(); i++ {
					if typeMentionsGate(sig.Results().At(i).Type(), gates, map[types.Type]bool{}) {
						bad = append(bad, display+": gate type in a result")
					}
				}
				if tp := sig.TypeParams(); tp != nil {
					for i := 0; i < tp.Len(); i++ {
						if typeMentionsGate(tp.At(i).Constraint(), gates, map[types.Type]bool{}) {
							bad = append(bad, display+": gate type in a type-parameter constraint")
						}
					}
				}
			}
			switch x := o.(type) {
			case *types.Func:
				checkSig(short+"."+name, x.Type().(*types.Signature), x)
			case *types.Var:
				if typeMentionsGate(x.Type(), gates, map[types.Type]bool{}) {
					bad = append(bad, short+"."+name+": variable mentions the gate type")
				}
			case *types.Const:
				if typeMentionsGate(x.Type(), gates, map[types.Type]bool{}) {
					bad = append(bad, short+"."+name+": constant of the gate type")
				}
			case *types.TypeName:
				if gates[x] {
					bad = append(bad, short+"."+name+": gate type is exported")
					continue
				}
				if x.IsAlias() && typeMentionsGate(x.Type(), gates, map[types.Type]bool{}) {
					bad = append(bad, short+"."+name+": exported alias of the gate type")
				}
				if st, ok := x.Type().Underlying().(*types.Struct); ok {
					for i := 0; i < st.NumFields(); i++ {
						if st.Field(i).Exported() && typeMentionsGate(st.Field(i).Type(), gates, map[types.Type]bool{}) {
							bad = append(bad, short+"."+name+"."+st.Field(i).Name()+": exported field mentions the gate type")
						}
					}
				} else if _, isNamedT := x.Type().(*types.Named); isNamedT && typeMentionsGate(x.Type().Underlying(), gates, map[types.Type]bool{}) {
					bad = append(bad, short+"."+name+": exported type built from the gate type")
				}
				for _, T := range []types.Type{x.Type(), types.NewPointer(x.Type())} {
					ms := types.NewMethodSet(T)
					for i := 0; i < ms.Len(); i++ {
						m := ms.At(i).Obj().(*types.Func)
						if m.Exported() && m.Pkg() == pk.Types {
							checkSig(fmt.Sprintf("%s.(%s).%s", short, types.TypeString(T, shortQual), m.Name()), m.Type().(*types.Signature), m)
						}
					}
				}
			}
		}
		sort.Strings(bad)
		if len(bad) == 0 {
			r.OK("C19.R2", short+"#surface", "", "the gate type appears in the exported API only as a direct or variadic parameter")
		} else {
			for _, b := range bad {
				r.Viol("C19.R2", short+"#surface:"+b, "", "the gate type leaks out of the parameter position: "+b, "")
			}
		}
	}
	// dedupe gps (methods found through both T and *T)
	{
		seen := map[string]bool{}
		var out []gateParam
		for _, g := range gps {
			k := fmt.Sprintf("%p/%d", g.fn, g.idx)
			if !seen[k] {
				seen[k] = true
				out = append(out, g)
			}
		}
		gps = out
	}
	// ---- R3 statement table -------------------------------------------------------------------------
	for _, key := range sortedKeys(gateTable) {
		short := strings.SplitN(key, ".", 2)[0]
		rel := ""
		if short == "template" {
			rel = "template"
		}
		f := lookupFunc(p.Pkg(rel).Types, strings.SplitN(key, ".", 2)[1])
		if f == nil {
			continue
		}
		sig := f.Type().(*types.Signature)
		for _, i := range gateTable[key] {
			c := fmt.Sprintf("%s#param%d", key, i)
			ok := i < sig.Params().Len() && isGateType(sig.Params().At(i).Type(), gates)
			r.Check(ok, "C19.R3", c, p.Pos(f.Pos()), "parameter has the package's gate type (only an untyped constant can be passed)", "a programmer-controlled text parameter accepts run-time strings: its type is "+types.TypeString(sig.Params().At(i).Type(), shortQual))
		}
	}
	// ---- R4 safe types are closed ------------------------------------------------------------------------
	for rel, names := range safeTypeDecls {
		pk := p.Pkg(rel)
		for _, name := range names {
			c := pk.Types.Name() + "." + name
			o, _ := pk.Types.Scope().Lookup(name).(*types.TypeName)
			if o == nil {
				r.Undec("C19.R4", c, "", "type not found")
				continue
			}
			st, ok := o.Type().Underlying().(*types.Struct)
			var bad []string
			if !ok || o.IsAlias() {
				bad = append(bad, "not a defined struct type")
			} else {
				for i := 0; i < st.NumFields(); i++ {
					f := st.Field(i)
					if f.Exported() {
						bad = append(bad, "exported field "+f.Name())
					}
					if f.Embedded() {
						bad = append(bad, "embedded field "+f.Name())
					}
				}
			}
			ms := types.NewMethodSet(types.NewPointer(o.Type()))
			vs := types.NewMethodSet(o.Type())
			for i := 0; i < ms.Len(); i++ {
				m := ms.At(i).Obj()
				if m.Exported() && vs.Lookup(m.Pkg(), m.Name()) == nil {
					bad = append(bad, "exported pointer-receiver method "+m.Name())
				}
			}
			// field stores other than in composite literals
			sp := p.SSAPkg(rel)
			for _, f := range p.SrcFuncs() {
				if f.Pkg != sp && !(f.Parent() != nil && f.Parent().Pkg == sp) {
					continue
				}
				for _, b := range f.Blocks {
					for _, in := range b.Instrs {
						st, ok := in.(*ssa.Store)
						if !ok {
							continue
						}
						fa, ok := st.Addr.(*ssa.FieldAddr)
						if !ok || !isNamed(fa.X.Type(), pk.PkgPath, name) {
							continue
						}
						// a literal, or a local variable of the function itself (e.g. a named result) that no other value can alias yet
						if al, ok := fa.X.(*ssa.Alloc); !ok || !(strings.Contains(al.Comment, "complit") || (!al.Heap && al.Parent() == f)) {
							bad = append(bad, "field assigned outside a composite literal in "+fnName(f))
						}
					}
				}
			}
			r.Check(len(bad) == 0, "C19.R4", c, p.Pos(o.Pos()), "struct with unexported, non-embedded fields only; no exported pointer method; fields written only by composite literals", strings.Join(bad, "; "))
		}
	}
	// ---- R5 sink provenance ---------------------------------------------------------------------------------
	checkSinkProvenance(p, r, gates)
	// ---- R6 importers ------------------------------------------------------------------------------------------
	allowedImporters := map[string]map[string]bool{
		modulePath + "/internal/raw":          {modulePath: true, modulePath + "/uncheckedconversions": true, modulePath + "/legacyconversions": true, modulePath + "/testconversions": true},
		modulePath + "/internal/template/raw": {pkgTemplate: true, pkgTemplate + "/uncheckedconversions": true},
	}
	for _, raw := range sortedKeys(allowedImporters) {
		var bad []string
		n := 0
		for path, pk := range p.Pkgs {
			for imp := range pk.Imports {
				if imp == raw {
					n++
					if !allowedImporters[raw][path] {
						bad = append(bad, path)
					}
				}
			}
		}
		sort.Strings(bad)
		r.Check(len(bad) == 0 && n > 0, "C19.R6", strings.TrimPrefix(raw, modulePath+"/")+"#importers", "", fmt.Sprintf("imported only by its %d owners (the safe-type package and the conversion packages)", n), fmt.Sprintf("raw constructor hooks are imported by %v", bad))
	}
	// conversion packages are used inside the library only by the two buffered wrappers
	for path, pk := range p.Pkgs {
		if strings.Contains(path, "conversions") || strings.Contains(path, "/internal/") {
			continue
		}
		for imp := range pk.Imports {
			if strings.HasPrefix(imp, modulePath) && strings.Contains(imp, "conversions") {
				sp := p.SSAPkgs[path]
				var users []string
				for _, f := range p.SrcFuncs() {
					if f.Pkg != sp || f.Synthetic != "" {
						continue
					}
					for _, b := range f.Blocks {
						for _, in := range b.Instrs {
							if c, ok := in.(*ssa.Call); ok {
								if g := staticCallee(c.Common()); g != nil && g.Pkg != nil && g.Pkg.Pkg.Path() == imp {
									if helperOnlyOf(p, f, isToHTMLWrapper, 0) {
										// a helper that only the two wrappers use (decided with them by C05.R4)
										users = append(users, "ExecuteTemplateToHTML", "ExecuteToHTML")
										continue
									}
									users = append(users, f.Name())
								}
							}
						}
					}
				}
				sort.Strings(users)
				var uniq []string
				for i, u := range users {
					if i == 0 || users[i-1] != u {
						uniq = append(uniq, u)
					}
				}
				users = uniq
				ok := path == pkgTemplate && strings.Join(users, ",") == "ExecuteTemplateToHTML,ExecuteToHTML"
				r.Check(ok, "C19.R6", strings.TrimPrefix(path, modulePath)+"#uses:"+strings.TrimPrefix(imp, modulePath+"/"), "", "unchecked conversion used only by ExecuteToHTML / ExecuteTemplateToHTML (on their own buffered output)", fmt.Sprintf("an unchecked conversion is called from %v", users))
			}
		}
	}
	// ---- R7 no exported mutable state ------------------------------------------------------------------------------
	for rel, short := range map[string]string{"": "safehtml", "template": "template", "internal/safehtmlutil": "safehtmlutil"} {
		pk := p.Pkg(rel)
		var vars []string
		for _, name := range pk.Types.Scope().Names() {
			if v, ok := pk.Types.Scope().Lookup(name).(*types.Var); ok && v.Exported() {
				vars = append(vars, name)
			}
		}
		r.Check(len(vars) == 0, "C19.R7", short+"#exported-vars", "", "no exported package-level variable (policy tables, patterns and hooks cannot be reassigned by clients)", fmt.Sprintf("exported package-level variables: %v", vars))
	}
	// ---- R8 compile-fail witnesses ------------------------------------------------------------------------------------
	runWitnesses(p, r, gps, gates)
}

func lookupFunc(pkg *types.Package, name string) *types.Func {
	if strings.HasPrefix(name, "(*") {
		parts := strings.SplitN(strings.TrimPrefix(name, "(*"), ").", 2)
		tn, _ := pkg.Scope().Lookup(parts[0]).(*types.TypeName)
		if tn == nil {
			return nil
		}
		ms := types.NewMethodSet(types.NewPointer(tn.Type()))
		if sel := ms.Lookup(pkg, parts[1]); sel != nil {
			return sel.Obj().(*types.Func)
		}
		return nil
	}
	f, _ := pkg.Scope().Lookup(name).(*types.Func)
	return f
}

// ---- R5 -----------------------------------------------------------------------------------

func checkSinkProvenance(p *Program, r *Report, gates map[*types.TypeName]bool) {
	type sanitizerSpec struct{ name string }
	okCalls := map[string]string{
		"html.EscapeString":                     "HTML escaper",
		"encoding/json.Marshal":                 "JSON encoder (HTML-safe)",
		pkgUtil + ".QueryEscapeURL":             "percent-encoder",
		modulePath + ".cssEscapeString":         "CSS string escaper",
		modulePath + ".filter":                  "value filter",
		"(flag.Value).String":                   "configuration source (flag)",
		"invoke:(flag.Value).String":            "configuration source (flag)",
		"os.Getenv":                             "configuration source (environment variable named by a constant)",
		"os.DirFS":                              "file system rooted at a trusted source",
		"io/fs.Sub":                             "sub-tree of a trusted file system",
		"(*bytes.Buffer).String":                "locally built buffer (its writes are checked by the property of that constructor)",
		"fmt.Sprintf":                           "format with checked operands",
		"fmt.Sprint":                            "stringification",
		"path/filepath.Join":                    "path join of trusted elements",
		"strings.Join":                          "join of checked parts",
		"(*regexp.Regexp).ReplaceAllStringFunc": "marker substitution (C13.R2)",
		modulePath + "/template.trustedSourcesToStrings": "contents of TrustedSource values",
	}
	// constructors whose dynamic string parameters are validated by a dedicated property
	validated := map[string]string{
		"URLSanitized": "C11", "URLSetSanitized": "C12", "CSSRule": "C16", "IdentifierFromConstantPrefix": "C18", "IdentifierFromConstant": "C18", "TrustedResourceURLAppend": "C13",
		"trustedResourceURLFormat": "C13", "TrustedResourceURLWithParams": "C13", "StyleFromProperties": "C15", "ScriptFromDataAndConstant": "C17",
		"TrustedSourceFromConstantDir": "C20", "HTMLEscaped": "C10", "HTMLConcat": "C10", "TrustedSourceJoin": "contents of TrustedSource values", "Sub": "trusted sub-directory",
	}
	n := 0
	for rel, names := range safeTypeDecls {
		sp := p.SSAPkg(rel)
		pk := p.Pkg(rel)
		isSafe := map[string]bool{}
		for _, nm := range names {
			isSafe[nm] = true
		}
		// raw constructors: unexported, single string parameter stored as is
		rawOK := map[*ssa.Function]bool{}
		for _, f := range p.SrcFuncs() {
			if f.Pkg != sp || f.Parent() != nil {
				continue
			}
			pv := NewProv(p)
			pv.NoInline = true
			for _, b := range f.Blocks {
				for _, in := range b.Instrs {
					st, ok := in.(*ssa.Store)
					if !ok {
						continue
					}
					fa, ok := st.Addr.(*ssa.FieldAddr)
					if !ok {
						continue
					}
					nt, _ := namedStructField(fa.X.Type())
					if nt == nil || nt.Obj().Pkg() != pk.Types || !isSafe[nt.Obj().Name()] {
						continue
					}
					n++
					c := fmt.Sprintf("%s#constructs:%s", strings.TrimPrefix(fnName(f), modulePath), nt.Obj().Name())
					pos := p.Pos(st.Pos())
					e := pv.Of(st.Val)
					var bad []string
					e.Walk(func(x *Expr) bool {
						switch x.Op {
						case "const", "zero", "func", "none":
							return false
						case "param":
							t := x.Type
							if t != nil && isGateType(t, gates) {
								return false // only constants reach it
							}
							if t != nil {
								if nn, ok := t.(*types.Named); ok && nn.Obj().Pkg() != nil && strings.HasPrefix(nn.Obj().Pkg().Path(), modulePath) {
									if _, isIface := t.Underlying().(*types.Interface); !isIface {
										return false // another safe / trusted value
									}
								}
								if _, ok := t.Underlying().(*types.Interface); ok {
									if nt.Obj().Name() == "TrustedFS" {
										// a file system behind an interface can be anything a client implements (fstest.MapFS with
										// run-time contents); an unexported interface type is no gate: values are assignable to it
										bad = append(bad, "parameter "+x.Name+" of interface type "+types.TypeString(t, shortQual)+" (any implementation a client supplies becomes the trusted file system; only the concrete embed.FS carries files fixed at build time)")
										return false
									}
									return false // flag.Value-like sources are handled at the call
								}
								if tn, ok := t.(*types.Named); ok && tn.Obj().Pkg() != nil && (tn.Obj().Pkg().Path() == "embed" || tn.Obj().Pkg().Path() == "io/fs") {
									return false
								}
							}
							if why, ok := validated[cname(f)]; ok {
								_ = why
								return false
							}
							if !f.Object().Exported() && isRawConstructor(p, f) {
								rawOK[f] = true
								return false
							}
							// a step of a validated constructor extracted into a helper that only it calls
							if helperOnlyOf(p, f, func(g *ssa.Function) bool { _, ok := validated[cname(g)]; return ok }, 0) {
								return false
							}
							bad = append(bad, "parameter "+x.Name+" of "+f.Name())
							return false
						case "call":
							name := x.CalleeName()
							if _, ok := okCalls[name]; ok {
								if _, isV := validated[cname(f)]; isV || name != "fmt.Sprintf" && name != "fmt.Sprint" && name != "strings.Join" && name != "(*bytes.Buffer).String" {
									return name == "fmt.Sprint" || name == "os.Getenv" || name == "path/filepath.Join" || name == "os.DirFS" || name == "io/fs.Sub" // look into the operands of these
								}
								return true
							}
							if identityAccessor(x.Fn) {
								return true // c.str(): look at what the receiver is
							}
							if x.Fn != nil && x.Fn.Pkg != nil && strings.HasPrefix(x.Fn.Pkg.Pkg.Path(), modulePath) {
								// accessor of another safe value, or a helper of a validated constructor
								if x.Fn.Name() == "String" {
									return false
								}
								if _, ok := validated[cname(f)]; ok {
									return false
								}
							}
							if _, ok := validated[cname(f)]; ok {
								return false
							}
							bad = append(bad, "result of "+name)
							return false
						case "field":
							return true
						case "unknown", "load", "alloc", "freevar", "lookup", "index", "phi", "slice", "binop", "convert", "extract", "makeiface", "next", "range", "global", "unop", "typeassert", "closure", "fieldaddr", "indexaddr", "makeslice", "makemap":
							if _, ok := validated[cname(f)]; ok {
								return x.Op == "binop" || x.Op == "convert" || x.Op == "phi" || x.Op == "extract"
							}
							if x.Op == "binop" || x.Op == "convert" || x.Op == "phi" || x.Op == "extract" || x.Op == "field" || x.Op == "makeiface" {
								return true
							}
							bad = append(bad, x.Op+" "+x.String())
							return false
						}
						return true
					})
					sort.Strings(bad)
					r.Check(len(bad) == 0, "C19.R5", c, pos, "stored value: "+trunc(e.String(), 160), "a safe type is constructed from a caller-supplied string that passed no validator: "+strings.Join(bad, "; "))
				}
			}
		}
		for f := range rawOK {
			r.OK("C19.R5", strings.TrimPrefix(fnName(f), modulePath)+"#raw-constructor", p.Pos(f.Pos()), "unexported raw constructor referenced only by an init assignment to an internal/…/raw hook")
		}
	}
	_ = n
}

func trunc(s string, n int) string {
	if len(s) > n {
		return s[:n] + "…"
	}
	return s
}

// isRawConstructor: f is referenced only as the value stored into a variable
// of an internal/…/raw package, from an init function.
func isRawConstructor(p *Program, f *ssa.Function) bool {
	refs := 0
	for _, g := range p.SrcFuncs() {
		for _, b := range g.Blocks {
			for _, in := range b.Instrs {
				for _, op := range in.Operands(nil) {
					if *op != ssa.Value(f) {
						continue
					}
					refs++
					mi, ok := in.(*ssa.MakeInterface)
					if !ok {
						return false
					}
					okStore := false
					for _, ref := range *mi.Referrers() {
						if st, ok := ref.(*ssa.Store); ok {
							if gl, ok := st.Addr.(*ssa.Global); ok && strings.Contains(gl.Pkg.Pkg.Path(), "/internal/") && strings.HasSuffix(gl.Pkg.Pkg.Path(), "/raw") && strings.HasPrefix(g.Name(), "init") {
								okStore = true
							}
						}
					}
					if !okStore {
						return false
					}
				}
			}
		}
	}
	return refs >= 1
}

// ---- R8 witnesses --------------------------------------------------------------------------

type witness struct {
	id       string
	src      string
	mustFail bool
	line     int // line of the marked argument
	known    string
}

func typeExpr(t types.Type, imports map[string]bool) string {
	return types.TypeString(t, func(pk *types.Package) string {
		imports[pk.Path()] = true
		return pk.Name()
	})
}

func runWitnesses(p *Program, r *Report, gps []gateParam, gates map[*types.TypeName]bool) {
	forms := []struct{ name, expr string }{
		{"string-variable", "s"},
		{"typed-constant", "typedConst"},
		{"conversion", "string(b)"},
		{"call-result", "g()"},
		{"constant-plus-variable", `"a" + s`},
		{"fmt.Sprint", `fmt.Sprint("a")`},
		{"named-string-type", "m"},
		{"bytes-conversion", "string(b[:1])"},
	}
	controls := []struct{ name, expr string }{
		{"literal", `"x"`},
		{"untyped-constant", "untypedConst"},
		{"constant-concatenation", `"a" + "b"`},
	}
	quick := r.Tier != "thorough"
	var ws []witness
	sort.Slice(gps, func(i, j int) bool { return gps[i].name+fmt.Sprint(gps[i].idx) < gps[j].name+fmt.Sprint(gps[j].idx) })
	for gi, g := range gps {
		sig := g.fn.Type().(*types.Signature)
		mk := func(argExpr string) (string, int) {
			imports := map[string]bool{"fmt": true}
			var args []string
			for i := 0; i < sig.Params().Len(); i++ {
				if i == g.idx {
					args = append(args, "\t\t"+argExpr+", // MARK")
					continue
				}
				t := sig.Params().At(i).Type()
				if sig.Variadic() && i == sig.Params().Len()-1 {
					continue // no further variadic arguments
				}
				if isGateType(t, gates) {
					args = append(args, "\t\t\"x\",") // the gate type cannot be named: pass a constant
					continue
				}
				args = append(args, "\t\t*new("+typeExpr(t, imports)+"),")
			}
			imports[g.fn.Pkg().Path()] = true
			callee := g.fn.Pkg().Name() + "." + g.fn.Name()
			if recv := sig.Recv(); recv != nil {
				callee = "(*new(" + typeExpr(recv.Type(), imports) + "))." + g.fn.Name()
			}
			var imps []string
			for path := range imports {
				imps = append(imps, fmt.Sprintf("\t%q", path))
			}
			sort.Strings(imps)
			src := "package w\n\nimport (\n" + strings.Join(imps, "\n") + "\n)\n\n" +
				"type my string\n\nconst typedConst string = \"x\"\nconst untypedConst = \"x\"\n\nvar (\n\ts string\n\tb []byte\n\tm my\n)\n\nfunc g() string { return s }\n\nvar _ = fmt.Sprint\n\n" +
				"func use() {\n\t" + callee + "(\n" + strings.Join(args, "\n") + "\n\t)\n}\n"
			line := 0
			for i, l := range strings.Split(src, "\n") {
				if strings.Contains(l, "// MARK") {
					line = i + 1
				}
			}
			return src, line
		}
		sel := forms
		if quick {
			sel = []struct{ name, expr string }{forms[gi%len(forms)], forms[(gi+3)%len(forms)]}
		}
		for _, f := range sel {
			src, line := mk(f.expr)
			ws = append(ws, witness{id: fmt.Sprintf("%s#param%d:%s", g.name, g.idx, f.name), src: src, mustFail: true, line: line})
		}
		csel := controls
		if quick {
			csel = controls[gi%len(controls) : gi%len(controls)+1]
		}
		for _, c := range csel {
			src, line := mk(c.expr)
			ws = append(ws, witness{id: fmt.Sprintf("%s#param%d:control:%s", g.name, g.idx, c.name), src: src, mustFail: false, line: line})
		}
	}
	// direct construction of safe types and naming of the gate type
	extra := []struct {
		id, imp, body string
		fail          bool
		known         string
	}{
		{"gate-type-cannot-be-named:safehtml", modulePath, "var _ safehtml.stringConstant // MARK", true, ""},
		{"gate-type-cannot-be-named:template", pkgTemplate, "var _ template.stringConstant // MARK", true, ""},
		{"safe-type-literal:unkeyed", modulePath, "var _ = safehtml.HTML{\"x\"} // MARK", true, ""},
		{"safe-type-literal:keyed", modulePath, "var _ = safehtml.HTML{str: \"x\"} // MARK", true, ""},
		{"safe-type-conversion:struct", modulePath, "var _ = safehtml.URL(struct{ str string }{\"javascript:alert(1)\"}) // MARK", true, ""},
		{"safe-type-conversion:string", modulePath, "var _ = safehtml.Script(\"x\") // MARK", true, ""},
		{"safe-type-field-assignment", modulePath, "func f() { var h safehtml.HTML; h.str = \"x\" // MARK\n\t_ = h }", true, ""},
		{"trusted-source-literal", pkgTemplate, "var _ = template.TrustedSource{\"x\"} // MARK", true, ""},
		{"zero-value-control", modulePath, "var _ safehtml.HTML // MARK", false, ""},
		{"generic-conversion-helper", modulePath, "func mk[T ~string, R any](f func(T) R, s string) R { return f(T(s)) }\n\nvar runtimeString = string(make([]byte, 3))\n\nvar _ = mk(safehtml.ScriptFromConstant, runtimeString) // MARK", true, "F12"},
	}
	for _, e := range extra {
		name := e.imp[strings.LastIndex(e.imp, "/")+1:]
		_ = name
		src := "package w\n\nimport \"" + e.imp + "\"\n\n" + e.body + "\n"
		line := 0
		for i, l := range strings.Split(src, "\n") {
			if strings.Contains(l, "// MARK") {
				line = i + 1
			}
		}
		ws = append(ws, witness{id: e.id, src: src, mustFail: e.fail, line: line, known: e.known})
	}
	// write the module
	dir, err := os.MkdirTemp("", "safecheck-witness-")
	if err != nil {
		r.Undec("C19.R8", "witness-corpus", "", err.Error())
		return
	}
	defer os.RemoveAll(dir)
	gomod := "module witness\n\ngo 1.23\n\nrequire " + modulePath + " v0.0.0\n\nreplace " + modulePath + " => " + p.RepoDir + "\n"
	os.WriteFile(filepath.Join(dir, "go.mod"), []byte(gomod), 0o644)
	if b, err := os.ReadFile(filepath.Join(p.RepoDir, "go.sum")); err == nil {
		os.WriteFile(filepath.Join(dir, "go.sum"), b, 0o644)
	}
	byDir := map[string]*witness{}
	for i := range ws {
		d := fmt.Sprintf("w%03d", i)
		os.MkdirAll(filepath.Join(dir, d), 0o755)
		os.WriteFile(filepath.Join(dir, d, "w.go"), []byte(ws[i].src), 0o644)
		byDir["witness/"+d] = &ws[i]
	}
	cfg := &packages.Config{
		Mode: packages.NeedName | packages.NeedFiles | packages.NeedSyntax | packages.NeedTypes | packages.NeedTypesInfo | packages.NeedImports | packages.NeedDeps,
		Dir:  dir,
		Env:  append(os.Environ(), "GOFLAGS=-mod=mod", "GOPROXY=off", "GOSUMDB=off", "GOTOOLCHAIN=local", "GOWORK=off", "CGO_ENABLED=0"),
		Fset: token.NewFileSet(),
	}
	pkgs, err := packages.Load(cfg, "./...")
	if err != nil {
		r.Undec("C19.R8", "witness-corpus", "", "loading the witness corpus failed: "+err.Error())
		return
	}
	if len(pkgs) != len(ws) {
		r.Undec("C19.R8", "witness-corpus", "", fmt.Sprintf("%d witness packages written, %d loaded", len(ws), len(pkgs)))
	}
	r.Analysed["witness_programs"] = len(ws)
	for _, pk := range pkgs {
		w := byDir[pk.PkgPath]
		if w == nil {
			continue
		}
		var atMark, other []string
		for _, e := range pk.Errors {
			// position "file:line:col"
			parts := strings.Split(e.Pos, ":")
			ln := ""
			if len(parts) >= 2 {
				ln = parts[len(parts)-2]
			}
			if ln == fmt.Sprint(w.line) || ln == fmt.Sprint(w.line-1) || ln == fmt.Sprint(w.line+1) {
				atMark = append(atMark, e.Msg)
			} else {
				other = append(other, e.Pos+": "+e.Msg)
			}
		}
		c := "witness:" + w.id
		switch {
		case w.mustFail && len(atMark) > 0:
			r.OK("C19.R8", c, "", "does not compile: "+trunc(atMark[0], 140))
		case w.mustFail:
			detail := "a client program that passes a non-constant string where only constants are promised type-checks"
			if len(other) > 0 {
				detail += " at the marked argument (other errors: " + trunc(other[0], 100) + ")"
				r.Undec("C19.R8", c, "", detail)
			} else {
				r.Viol("C19.R8", c, "", detail, firstLines(w.src, "// MARK"))
			}
		case len(pk.Errors) == 0:
			r.OK("C19.R8", c, "", "control compiles")
		default:
			r.Undec("C19.R8", c, "", "control program does not compile: "+trunc(pk.Errors[0].Msg, 140))
		}
	}
}

func firstLines(src, mark string) string {
	for _, l := range strings.Split(src, "\n") {
		if strings.Contains(l, mark) {
			return strings.TrimSpace(l)
		}
	}
	return ""
}

var _ = ast.Inspect

// checkSafeTypeConvertibility (C19.R9): Go converts between two struct types with identical
// underlying types, unexported fields included when both types live in one package. Two
// wrapper types declared as struct{ str string } in the same package are therefore
// convertible by any client: safehtml.Script(safehtml.HTMLEscaped(x)). The wrapper types of
// each package must be pairwise non-convertible.
func checkSafeTypeConvertibility(p *Program, r *Report) {
	n := 0
	for _, rel := range []string{"", "template"} {
		pk := p.Pkg(rel)
		if pk == nil || pk.Types == nil {
			continue
		}
		var ts []*types.TypeName
		sc := pk.Types.Scope()
		for _, nm := range sc.Names() {
			tn, ok := sc.Lookup(nm).(*types.TypeName)
			if !ok || !tn.Exported() || tn.IsAlias() {
				continue
			}
			if st, ok := tn.Type().Underlying().(*types.Struct); ok && st.NumFields() >= 1 {
				allUnexp := true
				for i := 0; i < st.NumFields(); i++ {
					if st.Field(i).Exported() {
						allUnexp = false
					}
				}
				if allUnexp && structCarriesOnlyStrings(st) {
					ts = append(ts, tn)
				}
			}
		}
		for i, a := range ts {
			for _, b := range ts[i+1:] {
				n++
				c := fmt.Sprintf("convertible:%s.%s<->%s", pk.Types.Name(), a.Name(), b.Name())
				pos := p.Fset.Position(a.Pos()).String()
				if types.ConvertibleTo(a.Type(), b.Type()) || types.ConvertibleTo(b.Type(), a.Type()) {
					r.Viol("C19.R9", c, p.Pos(a.Pos()), fmt.Sprintf("%s and %s have identical underlying types: any client package can write %s.%s(v) for a %s v, obtaining a %s whose contents were only made safe for %s",
						a.Name(), b.Name(), pk.Types.Name(), b.Name(), a.Name(), b.Name(), a.Name()),
						fmt.Sprintf("var _ = %s.%s(%s.%s{}) compiles outside the package", pk.Types.Name(), b.Name(), pk.Types.Name(), a.Name()))
				} else {
					_ = pos
					r.OK("C19.R9", c, p.Pos(a.Pos()), "not convertible into each other")
				}
			}
		}
	}
	if n == 0 {
		r.Undec("C19.R9", "safe-types", "", "no wrapper types found")
	}
}

// structCarriesOnlyStrings: every field is a string (the wrapper types of the safe-type family).
func structCarriesOnlyStrings(st *types.Struct) bool {
	for i := 0; i < st.NumFields(); i++ {
		b, ok := st.Field(i).Type().Underlying().(*types.Basic)
		if !ok || b.Kind() != types.String {
			return false
		}
	}
	return true
}
