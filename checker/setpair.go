package main

import (
	"fmt"
	"go/token"
	"go/types"
	"strings"

	"golang.org/x/tools/go/ssa"
)

// A Template is two handles at once: a member of a text/template set (field text) and
// a member of a name space (the embedded *nameSpace, which carries the escaped flag and
// the lock that gate Parse). The freeze of an executed set relies on the two going
// together: every template of one text/template set is gated by the same name space.
// A handle whose text template lives in set A while its gate is the name space of B
// can parse into A after A has executed.
//
// tfam is the abstract identity of such a pair: "of" some *Template the function was
// given (its set and its name space), or "fresh" (created at a site in this function).
type tfam struct {
	kind string // "of", "fresh", "opaque"
	root ssa.Value
}

type famEval struct {
	p       *Program
	summary map[*ssa.Function]string // "fresh", "param:N", "?"
	active  map[ssa.Value]bool
}

func isTextTmplPtr(t types.Type) bool {
	pt, ok := t.Underlying().(*types.Pointer)
	return ok && isNamed(pt.Elem(), "text/template", "Template")
}

func isOurTmplPtr(t types.Type) bool {
	pt, ok := t.Underlying().(*types.Pointer)
	return ok && isNamed(pt.Elem(), pkgTemplate, "Template")
}

// storedField: the values stored into field name of the local struct al.
func storedField(al ssa.Value, name string) []ssa.Value {
	var out []ssa.Value
	refs := al.Referrers()
	if refs == nil {
		return nil
	}
	for _, ref := range *refs {
		fa, ok := ref.(*ssa.FieldAddr)
		if !ok || fieldName(al.Type(), fa.Field) != name {
			continue
		}
		for _, r2 := range *fa.Referrers() {
			if st, ok := r2.(*ssa.Store); ok && st.Addr == ssa.Value(fa) {
				out = append(out, st.Val)
			}
		}
	}
	return out
}

func (fe *famEval) join(fs []tfam, at ssa.Value) tfam {
	if len(fs) == 0 {
		return tfam{"opaque", at}
	}
	for _, f := range fs[1:] {
		if f != fs[0] {
			return tfam{"opaque", at}
		}
	}
	return fs[0]
}

// fieldLoad: v is a load of field name of a *Template value; returns that value.
func fieldLoadOf(v ssa.Value, name string) (ssa.Value, bool) {
	u, ok := v.(*ssa.UnOp)
	if !ok || u.Op != token.MUL {
		return nil, false
	}
	fa, ok := u.X.(*ssa.FieldAddr)
	if !ok || !isOurTmplPtr(fa.X.Type()) || fieldName(fa.X.Type(), fa.Field) != name {
		return nil, false
	}
	return fa.X, true
}

// ofTemplate: the family of a *Template value.
func (fe *famEval) ofTemplate(v ssa.Value) tfam {
	if fe.active[v] {
		return tfam{"opaque", v}
	}
	fe.active[v] = true
	defer delete(fe.active, v)
	switch x := v.(type) {
	case *ssa.Parameter:
		return tfam{"of", x}
	case *ssa.Alloc:
		// a local literal: its family is that of the name space stored in it
		var fs []tfam
		for _, ns := range storedField(x, "nameSpace") {
			fs = append(fs, fe.ofNS(ns))
		}
		return fe.join(fs, v)
	case *ssa.Call:
		g := staticCallee(x.Common())
		switch s := fe.ctorSummary(g); {
		case s == "fresh":
			return tfam{"fresh", x}
		case strings.HasPrefix(s, "param:"):
			var i int
			fmt.Sscanf(s, "param:%d", &i)
			if i < len(x.Common().Args) {
				return fe.ofTemplate(x.Common().Args[i])
			}
		case strings.HasPrefix(s, "nsparam:"):
			// a constructor helper that is handed the name space: the pairing is judged at this call
			var i int
			fmt.Sscanf(s, "nsparam:%d", &i)
			if i < len(x.Common().Args) {
				return fe.ofNS(x.Common().Args[i])
			}
		}
		return tfam{"opaque", v}
	case *ssa.Phi:
		var fs []tfam
		for _, e := range x.Edges {
			if k, ok := e.(*ssa.Const); ok && k.Value == nil {
				continue
			}
			fs = append(fs, fe.ofTemplate(e))
		}
		return fe.join(fs, v)
	case *ssa.Extract:
		if lk, ok := x.Tuple.(*ssa.Lookup); ok && x.Index == 0 {
			return fe.ofTemplate(lk)
		}
		if c, ok := x.Tuple.(*ssa.Call); ok && x.Index == 0 {
			return fe.ofTemplate(c)
		}
	case *ssa.Lookup:
		// ns.set[name]: a member of that name space
		if u, ok := x.X.(*ssa.UnOp); ok && u.Op == token.MUL {
			if fa, ok := u.X.(*ssa.FieldAddr); ok {
				if pt, ok := fa.X.Type().Underlying().(*types.Pointer); ok && isNamed(pt.Elem(), pkgTemplate, "nameSpace") {
					return fe.ofNS(fa.X)
				}
			}
		}
	case *ssa.UnOp:
		if x.Op == token.MUL {
			// a *Template held in a local variable
			if al, ok := x.X.(*ssa.Alloc); ok {
				var fs []tfam
				for _, ref := range *al.Referrers() {
					if st, ok := ref.(*ssa.Store); ok && st.Addr == ssa.Value(al) {
						fs = append(fs, fe.ofTemplate(st.Val))
					}
				}
				return fe.join(fs, v)
			}
		}
	}
	return tfam{"opaque", v}
}

// ofNS: the family of a *nameSpace value.
func (fe *famEval) ofNS(v ssa.Value) tfam {
	if t, ok := fieldLoadOf(v, "nameSpace"); ok {
		return fe.ofTemplate(t)
	}
	switch x := v.(type) {
	case *ssa.Alloc:
		if x.Heap {
			return tfam{"fresh", x}
		}
	case *ssa.Phi:
		var fs []tfam
		for _, e := range x.Edges {
			fs = append(fs, fe.ofNS(e))
		}
		return fe.join(fs, v)
	case *ssa.Parameter:
		return tfam{"of", x}
	case *ssa.Call:
		if isCtorCall(x) {
			return tfam{"fresh", x}
		}
	}
	return tfam{"opaque", v}
}

// ofText: the family (text/template set) of a *text/template.Template value.
func (fe *famEval) ofText(v ssa.Value) tfam {
	if fe.active[v] {
		return tfam{"opaque", v}
	}
	fe.active[v] = true
	defer delete(fe.active, v)
	if t, ok := fieldLoadOf(v, "text"); ok {
		if al, isAl := t.(*ssa.Alloc); isAl {
			var fs []tfam
			for _, tv := range storedField(al, "text") {
				fs = append(fs, fe.ofText(tv))
			}
			return fe.join(fs, v)
		}
		return fe.ofTemplate(t)
	}
	switch x := v.(type) {
	case *ssa.Call:
		c := x.Common()
		g := staticCallee(c)
		if g == nil {
			return tfam{"opaque", v}
		}
		switch n := fnName(g); {
		case n == "text/template.New":
			return tfam{"fresh", x}
		case n == "(*text/template.Template).Clone":
			return tfam{"fresh", x}
		case n == "text/template.Must" && len(c.Args) > 0:
			return fe.ofText(c.Args[0])
		case strings.HasPrefix(n, "(*text/template.Template).") && len(c.Args) > 0:
			// New, Lookup, Parse, AddParseTree, Funcs, Delims, Option, Templates: same set as the receiver
			return fe.ofText(c.Args[0])
		}
	case *ssa.Extract:
		if x.Index == 0 {
			return fe.ofText(x.Tuple)
		}
	case *ssa.Phi:
		var fs []tfam
		for _, e := range x.Edges {
			if k, ok := e.(*ssa.Const); ok && k.Value == nil {
				continue
			}
			fs = append(fs, fe.ofText(e))
		}
		return fe.join(fs, v)
	case *ssa.UnOp:
		if x.Op == token.MUL {
			switch a := x.X.(type) {
			case *ssa.IndexAddr: // an element of x.Templates()
				return fe.ofText(a.X)
			case *ssa.Alloc:
				var fs []tfam
				for _, ref := range *a.Referrers() {
					if st, ok := ref.(*ssa.Store); ok && st.Addr == ssa.Value(a) {
						fs = append(fs, fe.ofText(st.Val))
					}
				}
				return fe.join(fs, v)
			}
		}
	case *ssa.Parameter:
		return tfam{"of", x}
	}
	return tfam{"opaque", v}
}

// ctorSummary: what a helper returning *Template hands out — a template of a fresh set and
// fresh name space, or a template in the family of one of its parameters.
func (fe *famEval) ctorSummary(g *ssa.Function) string {
	if g == nil || g.Blocks == nil || g.Pkg == nil || g.Pkg.Pkg.Path() != pkgTemplate || g.Signature.Results().Len() == 0 || !isOurTmplPtr(g.Signature.Results().At(0).Type()) {
		return "?"
	}
	if s, ok := fe.summary[g]; ok {
		return s
	}
	fe.summary[g] = "?"
	res := ""
	for _, ret := range Returns(g) {
		rv := ret.Results[0]
		if k, ok := rv.(*ssa.Const); ok && k.Value == nil {
			continue
		}
		var s string
		al, ok := rv.(*ssa.Alloc)
		if !ok {
			f := fe.ofTemplate(rv)
			if prm, isP := f.root.(*ssa.Parameter); f.kind == "of" && isP {
				s = "param:" + fmt.Sprint(paramIndex(g, prm))
			} else {
				s = "?"
			}
		} else {
			ns := fe.ofTemplate(al)
			var fs []tfam
			for _, tv := range storedField(al, "text") {
				fs = append(fs, fe.ofText(tv))
			}
			tx := fe.join(fs, al)
			switch {
			case ns.kind == "fresh" && tx.kind == "fresh":
				s = "fresh"
			case ns.kind == "of" && tx == ns:
				if prm, isP := ns.root.(*ssa.Parameter); isP {
					s = "param:" + fmt.Sprint(paramIndex(g, prm))
				}
			case ns.kind == "of":
				if prm, isP := ns.root.(*ssa.Parameter); isP && !isOurTmplPtr(prm.Type()) {
					s = "nsparam:" + fmt.Sprint(paramIndex(g, prm))
				}
			}
			if s == "" {
				s = "?"
			}
		}
		if res != "" && res != s {
			res = "?"
			break
		}
		res = s
	}
	if res == "" {
		res = "?"
	}
	fe.summary[g] = res
	return res
}

func paramIndex(g *ssa.Function, prm *ssa.Parameter) int {
	for i, q := range g.Params {
		if q == prm {
			return i
		}
	}
	return -1
}

func famStr(f tfam) string {
	switch f.kind {
	case "of":
		return "the set of " + f.root.Name()
	case "fresh":
		return "a set/name space created here (" + f.root.Name() + ")"
	}
	return "an unresolved origin (" + f.root.Name() + ")"
}

// checkSetNameSpacePairing (C07): every store to a Template's text field pairs a text
// template with the name space that gates its set: a template in the family of t (its
// text from t's set, its name space t's) or a fresh pair; within a function one fresh set
// goes with one fresh name space.
func checkSetNameSpacePairing(p *Program, r *Report, rule string) {
	tsp := p.SSAPkg("template")
	fe := &famEval{p: p, summary: map[*ssa.Function]string{}, active: map[ssa.Value]bool{}}
	freshPairs := map[*ssa.Function]map[ssa.Value]ssa.Value{}
	for _, f := range p.SrcFuncs() {
		if f.Pkg == tsp {
			freshPairs[f] = map[ssa.Value]ssa.Value{}
		}
	}
	judge := func(cn, pos string, tx, ns tfam, freshPair map[ssa.Value]ssa.Value) {
		switch {
		case tx.kind == "opaque" || ns.kind == "opaque":
			r.Undec(rule, cn, pos, "origin of the text template or of the name space not resolved: text from "+famStr(tx)+", name space from "+famStr(ns))
		case tx.kind == "of" && ns == tx:
			r.OK(rule, cn, pos, "text template and name space both from "+famStr(tx))
		case tx.kind == "fresh" && ns.kind == "fresh":
			if prev, ok := freshPair[tx.root]; ok && prev != ns.root {
				r.Viol(rule, cn, pos, "one new text/template set is paired with two different name spaces", "")
			} else {
				freshPair[tx.root] = ns.root
				r.OK(rule, cn, pos, "a new text/template set with a new name space")
			}
		default:
			r.Viol(rule, cn, pos, "a Template pairs a text template from "+famStr(tx)+" with the name space of "+famStr(ns)+": Parse through this handle is gated by a name space other than the one that freezes the set it parses into, so an executed set can be redefined", `x1 := root.New("x"); parse; x2 := root.New("x"); execute; x1.Parse(...) succeeds and replaces the analysed "x"`)
		}
	}
	for _, f := range p.SrcFuncs() {
		if f.Pkg != tsp || f.Blocks == nil {
			continue
		}
		short := strings.TrimPrefix(fnName(f), pkgTemplate+".")
		freshPair := freshPairs[f]
		n := 0
		for _, b := range f.Blocks {
			for _, in := range b.Instrs {
				st, ok := in.(*ssa.Store)
				if !ok {
					continue
				}
				fa, ok := st.Addr.(*ssa.FieldAddr)
				if !ok || !isOurTmplPtr(fa.X.Type()) {
					continue
				}
				fld := fieldName(fa.X.Type(), fa.Field)
				if fld != "text" && fld != "nameSpace" {
					continue
				}
				_, local := fa.X.(*ssa.Alloc)
				if fld == "nameSpace" && local {
					continue // judged at the store of the literal's text field
				}
				n++
				cn := fmt.Sprintf("%s#%s-store%d", short, fld, n)
				pos := p.Pos(st.Pos())
				var tx, ns tfam
				if fld == "text" {
					if k, isK := st.Val.(*ssa.Const); isK && k.Value == nil {
						continue
					}
					tx = fe.ofText(st.Val)
					ns = fe.ofTemplate(fa.X)
				} else {
					ns = fe.ofNS(st.Val)
					tx = fe.ofTemplate(fa.X)
				}
				// a helper that is handed both halves: judged at each of its call sites
				if pt, okT := tx.root.(*ssa.Parameter); okT && tx.kind == "of" && ns.kind == "of" && tx != ns {
					if pn, okN := ns.root.(*ssa.Parameter); okN && f.Object() != nil && !f.Object().Exported() {
						ti, ni := paramIndex(f, pt), paramIndex(f, pn)
						sites := 0
						for _, caller := range p.SrcFuncs() {
							if caller.Pkg != tsp {
								continue
							}
							cshort := strings.TrimPrefix(fnName(caller), pkgTemplate+".")
							for _, cb := range caller.Blocks {
								for _, cin := range cb.Instrs {
									call, isCall := cin.(*ssa.Call)
									if !isCall || staticCallee(call.Common()) != f {
										continue
									}
									sites++
									var ctx, cns tfam
									if isOurTmplPtr(pt.Type()) {
										ctx = fe.ofTemplate(call.Common().Args[ti])
									} else {
										ctx = fe.ofText(call.Common().Args[ti])
									}
									if isOurTmplPtr(pn.Type()) {
										cns = fe.ofTemplate(call.Common().Args[ni])
									} else {
										cns = fe.ofNS(call.Common().Args[ni])
									}
									judge(fmt.Sprintf("%s#%s@%s%d", cshort, short, fld, sites), p.Pos(call.Pos()), ctx, cns, freshPairs[caller])
								}
							}
						}
						if sites > 0 {
							continue
						}
					}
				}
				// a helper that is handed a text template and makes the name space for it: right if every caller hands it a
				// text template of a set it has just created
				if pt, okT := tx.root.(*ssa.Parameter); okT && tx.kind == "of" && ns.kind == "fresh" && f.Object() != nil && !f.Object().Exported() && !isOurTmplPtr(pt.Type()) {
					ti := paramIndex(f, pt)
					sites, okSites := 0, true
					for _, caller := range p.SrcFuncs() {
						if caller.Pkg != tsp {
							continue
						}
						for _, cb := range caller.Blocks {
							for _, cin := range cb.Instrs {
								call, isCall := cin.(*ssa.Call)
								if !isCall || staticCallee(call.Common()) != f {
									continue
								}
								sites++
								if fe.ofText(call.Common().Args[ti]).kind != "fresh" {
									okSites = false
								}
							}
						}
					}
					if sites > 0 && okSites {
						r.OK(rule, cn, pos, "a new name space for the text/template set that every caller has just created")
						continue
					}
				}
				judge(cn, pos, tx, ns, freshPair)
				continue
			}
		}
	}
}
