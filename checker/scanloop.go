package main

// Scan loops. A loop that walks a string (or its bytes) from left to right and whose
// control flow depends on the current byte/rune only is summarised as a regular
// condition on that string: for every edge that leaves the loop, the set of strings
// that take it. This lets guard summaries see through hand-written scanners
// (for i := 0; i < len(s); i++ { switch s[i] { … return … } }) the same way they see
// through strings.ContainsAny or a regexp.

import (
	"fmt"
	"go/constant"
	"go/token"
	"go/types"

	"golang.org/x/tools/go/ssa"

	"safecheck/relang"
)

type scanLoop struct {
	Fn     *ssa.Function
	Str    ssa.Value // the scanned string / []byte
	ByRune bool
	Start  int
	Header *ssa.BasicBlock
	Exit   *ssa.BasicBlock // successor taken when the string is exhausted
	Blocks map[*ssa.BasicBlock]bool
	// Early[from][to] = symbols on which control leaves the loop along the edge from→to
	Early map[*ssa.BasicBlock]map[*ssa.BasicBlock]*relang.Set
	Cont  *relang.Set // symbols on which the loop goes on
}

// loopBlocks: natural loop of header h (blocks dominated by h from which h is reachable inside the region).
func loopBlocks(h *ssa.BasicBlock) map[*ssa.BasicBlock]bool {
	in := map[*ssa.BasicBlock]bool{h: true}
	var stack []*ssa.BasicBlock
	for _, p := range h.Preds {
		if h.Dominates(p) && !in[p] {
			in[p] = true
			stack = append(stack, p)
		}
	}
	for len(stack) > 0 {
		x := stack[len(stack)-1]
		stack = stack[:len(stack)-1]
		for _, p := range x.Preds {
			if !in[p] && h.Dominates(p) {
				in[p] = true
				stack = append(stack, p)
			}
		}
	}
	return in
}

func isLenOf(v ssa.Value) (ssa.Value, bool) {
	if c, ok := v.(*ssa.Call); ok {
		if bi, ok := c.Common().Value.(*ssa.Builtin); ok && bi.Name() == "len" && len(c.Common().Args) == 1 {
			return c.Common().Args[0], true
		}
	}
	return nil, false
}

// findScanLoops returns the canonical scan loops of fn; ok=false if fn has a loop that is not one.
func findScanLoops(p *Program, fn *ssa.Function) (loops []*scanLoop, ok bool) {
	ok = true
	headers := map[*ssa.BasicBlock]bool{}
	for _, b := range fn.Blocks {
		for _, su := range b.Succs {
			if su.Dominates(b) {
				headers[su] = true
			}
		}
	}
	for _, b := range fn.Blocks {
		if !headers[b] {
			continue
		}
		l := scanLoopAt(p, fn, b)
		if l == nil {
			ok = false
			continue
		}
		loops = append(loops, l)
	}
	return loops, ok
}

func scanLoopAt(p *Program, fn *ssa.Function, h *ssa.BasicBlock) *scanLoop {
	if len(h.Instrs) == 0 {
		if debugScan {
			fmt.Println("scanLoopAt: reject 1")
		}
		return nil
	}
	iff, isIf := h.Instrs[len(h.Instrs)-1].(*ssa.If)
	if !isIf || len(h.Succs) != 2 {
		if debugScan {
			fmt.Println("scanLoopAt: reject 2")
		}
		return nil
	}
	in := loopBlocks(h)
	// nested loops are not handled
	for b := range in {
		if b == h {
			continue
		}
		for _, su := range b.Succs {
			if su != h && su.Dominates(b) && in[su] {
				if debugScan {
					fmt.Println("scanLoopAt: reject 3")
				}
				return nil
			}
		}
	}
	l := &scanLoop{Fn: fn, Header: h, Blocks: in, Early: map[*ssa.BasicBlock]map[*ssa.BasicBlock]*relang.Set{}}
	var curVals []ssa.Value // SSA values holding the current byte/rune
	var dom *relang.Set
	body := h.Succs[0]
	l.Exit = h.Succs[1]
	if !in[body] || in[l.Exit] {
		if debugScan {
			fmt.Println("scanLoopAt: reject 4")
		}
		return nil
	}
	switch c := iff.Cond.(type) {
	case *ssa.BinOp:
		// i < len(s)
		if c.Op != token.LSS {
			if debugScan {
				fmt.Println("scanLoopAt: reject 5")
			}
			return nil
		}
		phi, okp := c.X.(*ssa.Phi)
		str, okl := isLenOf(c.Y)
		if !okp || !okl || phi.Block() != h || len(phi.Edges) != 2 {
			if debugScan {
				fmt.Println("scanLoopAt: reject 6")
			}
			return nil
		}
		start, stepOK := -1, false
		for i, e := range phi.Edges {
			if in[h.Preds[i]] {
				if bo, ok := e.(*ssa.BinOp); ok && bo.Op == token.ADD && bo.X == ssa.Value(phi) {
					if k, ok := constInt(bo.Y); ok && k == 1 {
						stepOK = true
					}
				}
			} else if k, ok := constInt(e); ok && (k == 0 || k == 1) {
				start = int(k)
			}
		}
		if start < 0 || !stepOK {
			if debugScan {
				fmt.Println("scanLoopAt: reject 7")
			}
			return nil
		}
		l.Str, l.Start = str, start
		// loads of s[i] inside the loop
		for b := range in {
			for _, ins := range b.Instrs {
				switch x := ins.(type) {
				case *ssa.Index:
					if x.X == str && x.Index == ssa.Value(phi) {
						curVals = append(curVals, x)
					}
				case *ssa.Lookup:
					if x.X == str && x.Index == ssa.Value(phi) {
						curVals = append(curVals, x)
					}
				case *ssa.UnOp:
					if ia, ok := x.X.(*ssa.IndexAddr); ok && x.Op == token.MUL && ia.X == str && ia.Index == ssa.Value(phi) {
						curVals = append(curVals, x)
					}
				}
			}
		}
		dom = byteDomain()
	case *ssa.Extract:
		nx, okn := c.Tuple.(*ssa.Next)
		if !okn || c.Index != 0 || !nx.IsString {
			if debugScan {
				fmt.Println("scanLoopAt: reject 8")
			}
			return nil
		}
		rg, okr := nx.Iter.(*ssa.Range)
		if !okr {
			if debugScan {
				fmt.Println("scanLoopAt: reject 9")
			}
			return nil
		}
		l.Str, l.ByRune = rg.X, true
		for b := range in {
			for _, ins := range b.Instrs {
				if ex, ok := ins.(*ssa.Extract); ok && ex.Tuple == ssa.Value(nx) && ex.Index == 2 {
					curVals = append(curVals, ex)
				}
			}
		}
		dom = runeDomain()
	default:
		if debugScan {
			fmt.Println("scanLoopAt: reject 10")
		}
		return nil
	}
	if len(curVals) == 0 {
		if debugScan {
			fmt.Println("scanLoopAt: reject 11")
		}
		return nil
	}
	aliases := map[ssa.Value]bool{}
	for _, v := range curVals[1:] {
		aliases[v] = true
	}
	rel := ""
	if fn.Pkg != nil {
		rel = relOf(fn.Pkg.Pkg.Path())
	}
	leaves := decisionTable(body, dtConfig{Tables: constBoolTables(p, rel), Var: curVals[0], Aliases: aliases, Dom: dom, Leaf: func(b *ssa.BasicBlock) (string, bool) {
		if b == h {
			return "cont", true
		}
		if !in[b] {
			return "exit", true
		}
		return "", false
	}})
	l.Cont = &relang.Set{}
	if debugScan {
		for _, lf := range leaves {
			fmt.Printf("  leaf %s %s tags=%v block=%v from=%v\n", lf.Effect, lf.Set, lf.Tags, lf.Block, lf.From)
		}
	}
	for _, lf := range leaves {
		if len(lf.Tags) > 0 || (lf.Effect != "cont" && lf.Effect != "exit") {
			if debugScan {
				fmt.Println("scanLoopAt: reject 12")
			}
			return nil
		}
		if lf.Effect == "cont" {
			l.Cont = l.Cont.Union(lf.Set)
			continue
		}
		if lf.From == nil {
			if debugScan {
				fmt.Println("scanLoopAt: reject 13")
			}
			return nil
		}
		m := l.Early[lf.From]
		if m == nil {
			m = map[*ssa.BasicBlock]*relang.Set{}
			l.Early[lf.From] = m
		}
		if m[lf.Block] == nil {
			m[lf.Block] = &relang.Set{}
		}
		m[lf.Block] = m[lf.Block].Union(lf.Set)
	}
	if !l.ByRune {
		// bytes ≥ 0x80 must be treated alike, or the byte scan has no description over code points
		hi := relang.NewSet(0x80, 0xFF)
		n := 0
		if !l.Cont.Intersect(hi).Empty() {
			if !hi.Minus(l.Cont).Empty() {
				if debugScan {
					fmt.Println("scanLoopAt: reject 14")
				}
				return nil
			}
			n++
		}
		for _, m := range l.Early {
			for _, s := range m {
				if !s.Intersect(hi).Empty() {
					if !hi.Minus(s).Empty() {
						if debugScan {
							fmt.Println("scanLoopAt: reject 15")
						}
						return nil
					}
					n++
				}
			}
		}
		if n != 1 {
			if debugScan {
				fmt.Println("scanLoopAt: reject 16")
			}
			return nil
		}
	}
	// the loop must not exit in any other way (e.g. a break that is not a function of the symbol)
	for b := range in {
		for _, su := range b.Succs {
			if in[su] || (b == h && su == l.Exit) {
				continue
			}
			if l.Early[b] == nil || l.Early[b][su] == nil {
				if debugScan {
					fmt.Println("scanLoopAt: reject 17")
				}
				return nil
			}
		}
	}
	return l
}

// relOf: import path → path relative to the module ("" for the root package).
func relOf(path string) string {
	if path == modulePath {
		return ""
	}
	if len(path) > len(modulePath)+1 && path[:len(modulePath)+1] == modulePath+"/" {
		return path[len(modulePath)+1:]
	}
	return path
}

// toRuneSet lifts a set over bytes to code points: ASCII as is; if the set holds the bytes
// ≥ 0x80 it holds every non-ASCII code point and the invalid-byte symbol.
func (l *scanLoop) toRuneSet(s *relang.Set) *relang.Set {
	if l.ByRune {
		return s
	}
	out := s.Intersect(relang.NewSet(0, 0x7F))
	if !s.Intersect(relang.NewSet(0x80, 0xFF)).Empty() {
		out = out.Union(relang.NewSet(0x80, relang.INV))
	}
	return out
}

// edgeAtom: the strings on which the loop is left along from→to (to == l.Exit from the header:
// the string is exhausted without an early exit).
func (l *scanLoop) edgeAtom(t Term, from, to *ssa.BasicBlock) *LAtom {
	if from == l.Header && to == l.Exit {
		all := &relang.Set{}
		for _, m := range l.Early {
			for _, s := range m {
				all = all.Union(l.toRuneSet(s))
			}
		}
		return &LAtom{Kind: "scan", Term: t, N: l.Start, Set: &relang.Set{}, Set2: all, End: true,
			Desc: fmt.Sprintf("scan(%s from %d: no symbol of %s)", termStr(t), l.Start, all)}
	}
	acc := l.toRuneSet(l.Early[from][to])
	rej := &relang.Set{}
	for f, m := range l.Early {
		for b, s := range m {
			if f == from && b == to {
				continue
			}
			rej = rej.Union(l.toRuneSet(s))
		}
	}
	return &LAtom{Kind: "scan", Term: t, N: l.Start, Set: acc, Set2: rej, End: false,
		Desc: fmt.Sprintf("scan(%s from %d: first symbol outside %s is in %s)", termStr(t), l.Start, l.toRuneSet(l.Cont), acc)}
}

// scanDFA builds the language of a scan atom: skip N symbols, then read symbols; a symbol of
// acc accepts at once, a symbol of rej rejects at once, any other continues; at the end of
// the string the verdict is end. With N = 1 (byte index 1) a non-ASCII first symbol has
// continuation bytes ≥ 0x80 at index 1, which are classified like any byte ≥ 0x80.
func scanDFA(a *relang.Alphabet, n int, acc, rej *relang.Set, end bool, byRune bool) *relang.DFA {
	const (
		qPre = iota
		qScan
		qAcc
		qRej
	)
	cls := func(sym int32) int {
		switch {
		case acc.Contains(sym):
			return qAcc
		case rej.Contains(sym):
			return qRej
		}
		return qScan
	}
	start := qScan
	if n == 1 {
		start = qPre
	}
	return relang.FromFunc(a, 4, start, func(q int) bool { return q == qAcc || ((q == qScan || q == qPre) && end) }, func(q int, sym int32) int {
		switch q {
		case qPre:
			if sym < 0x80 || byRune {
				return qScan
			}
			return cls(sym)
		case qScan:
			return cls(sym)
		}
		return q
	})
}

var debugScan = false

var _ = constant.MakeBool
var _ types.Type
