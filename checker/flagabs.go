package main

// The freeze flag of the name space, whatever it is called and however it is represented. The execution gates
// record, under the lock, that the set was executed; checkCanParse and Clone consult that record. The rules used
// to look for a boolean field by name; here the record is found by what the gates do — the field of nameSpace
// into which both gates store a non-zero constant — and a branch condition is read as "the flag is set" / "is
// not set" by evaluating it (folding helper methods such as phase.frozen()) for the stored constant and for the
// zero value.

import (
	"go/constant"
	"go/token"
	"go/types"

	"golang.org/x/tools/go/ssa"
)

type freezeFlag struct {
	p       *Program
	field   int
	name    string
	setVals []*ssa.Const // the constants the gates store
}

func isNameSpacePtr(t types.Type) bool {
	pt, ok := t.Underlying().(*types.Pointer)
	if !ok {
		return false
	}
	n, ok := pt.Elem().(*types.Named)
	return ok && n.Obj().Pkg() != nil && n.Obj().Pkg().Path() == pkgTemplate && canonName(n.Obj()) == "nameSpace"
}

func nonZeroConst(v ssa.Value) (*ssa.Const, bool) {
	k, ok := v.(*ssa.Const)
	if !ok || k.Value == nil {
		return nil, false
	}
	switch k.Value.Kind() {
	case constant.Bool:
		return k, constant.BoolVal(k.Value)
	case constant.Int:
		n, ok := constant.Int64Val(k.Value)
		return k, ok && n != 0
	}
	return nil, false
}

// discoverFreezeFlag: the field of nameSpace that every execution gate stores a non-zero constant into.
func discoverFreezeFlag(p *Program) *freezeFlag {
	var ff *freezeFlag
	for _, name := range []string{"(*Template).escape", "(*Template).lookupAndEscapeTemplate"} {
		f := p.Func("template", name)
		if f == nil {
			return nil
		}
		fields := map[int][]*ssa.Const{}
		for _, b := range f.Blocks {
			for _, in := range b.Instrs {
				st, ok := in.(*ssa.Store)
				if !ok {
					continue
				}
				fa, ok := st.Addr.(*ssa.FieldAddr)
				if !ok || !isNameSpacePtr(fa.X.Type()) {
					continue
				}
				if k, ok := nonZeroConst(st.Val); ok {
					fields[fa.Field] = append(fields[fa.Field], k)
				}
			}
		}
		if len(fields) != 1 {
			return nil
		}
		for fld, ks := range fields {
			if ff == nil {
				ff = &freezeFlag{p: p, field: fld}
			} else if ff.field != fld {
				return nil
			}
			ff.setVals = append(ff.setVals, ks...)
		}
	}
	if ff != nil {
		if sp := p.SSAPkg("template"); sp != nil {
			if tn, ok := sp.Pkg.Scope().Lookup(currentName(p, "template", "nameSpace")).(*types.TypeName); ok {
				if st, ok := tn.Type().Underlying().(*types.Struct); ok && ff.field < st.NumFields() {
					ff.name = st.Field(ff.field).Name()
				}
			}
		}
	}
	return ff
}

// currentName: the name a baseline type has in the current tree (the baseline name when it was not renamed).
func currentName(p *Program, rel, base string) string {
	if sp := p.SSAPkg(rel); sp != nil {
		for n, m := range sp.Members {
			if t, ok := m.(*ssa.Type); ok && canonName(t.Object()) == base {
				return n
			}
		}
	}
	return base
}

// isFlagAddr: addr is &ns.<flag> for a name space ns.
func (ff *freezeFlag) isFlagAddr(addr ssa.Value) bool {
	fa, ok := addr.(*ssa.FieldAddr)
	return ok && fa.Field == ff.field && isNameSpacePtr(fa.X.Type())
}

// setStores: the stores in f that set the flag.
func (ff *freezeFlag) setStores(f *ssa.Function) []*ssa.Store {
	var out []*ssa.Store
	for _, b := range f.Blocks {
		for _, in := range b.Instrs {
			if st, ok := in.(*ssa.Store); ok && ff.isFlagAddr(st.Addr) {
				if _, ok := nonZeroConst(st.Val); ok {
					out = append(out, st)
				}
			}
		}
	}
	return out
}

// flagLoad: the load of the flag that the condition is computed from (nil if it reads anything else of the heap).
func (ff *freezeFlag) flagLoad(cond ssa.Value, depth int) ssa.Value {
	if depth > 6 {
		return nil
	}
	switch x := cond.(type) {
	case *ssa.UnOp:
		if x.Op == token.MUL {
			if ff.isFlagAddr(x.X) {
				return x
			}
			return nil
		}
		return ff.flagLoad(x.X, depth+1)
	case *ssa.BinOp:
		if l := ff.flagLoad(x.X, depth+1); l != nil {
			return l
		}
		return ff.flagLoad(x.Y, depth+1)
	case *ssa.Call:
		for _, a := range x.Common().Args {
			if l := ff.flagLoad(a, depth+1); l != nil {
				return l
			}
		}
	case *ssa.Convert:
		return ff.flagLoad(x.X, depth+1)
	case *ssa.ChangeType:
		return ff.flagLoad(x.X, depth+1)
	}
	return nil
}

// meaning: what the branch condition cond, taken with value val, says about the flag: set (it holds for every
// constant the gates store and fails for the zero value), unset (the other way round), or nothing.
func (ff *freezeFlag) meaning(av atomVal, val bool) (set, unset bool) {
	cond := av.v
	load := ff.flagLoad(cond, 0)
	if load == nil {
		// a condition of a spliced helper on a parameter that stands for the flag
		for prm, arg := range av.bind {
			a := arg
			for i := 0; i < 4; i++ {
				if w, ok := av.bind[a]; ok {
					a = w
					continue
				}
				break
			}
			if l := ff.flagLoad(a, 0); l != nil && l == a && dependsOn(cond, prm, 0) {
				load = prm
			}
		}
	}
	if load == nil {
		return false, false
	}
	zero := ssa.NewConst(nil, load.Type())
	vz, ok := evalModeCond(ff.p, cond, load, zero, 0)
	if !ok || vz.kind != cvBool {
		return false, false
	}
	allSet := true
	for _, k := range ff.setVals {
		vk, ok := evalModeCond(ff.p, cond, load, k, 0)
		if !ok || vk.kind != cvBool {
			return false, false
		}
		if vk.b == vz.b {
			return false, false // the condition does not tell the two apart
		}
		if vk.b != val {
			allSet = false
		}
	}
	if allSet && vz.b != val {
		return true, false
	}
	if !allSet && vz.b == val {
		return false, true
	}
	return false, false
}

// pathSaysFlag: some condition assumed on the path says the flag is set (want=true) / not set (want=false).
func (ff *freezeFlag) pathSaysFlag(pe *pathExplorer, pth *cfgPath, want bool) bool {
	return pth.HasMatching(func(name string, val bool) bool {
		cond, ok := pe.AtomVals[name]
		if !ok {
			return false
		}
		set, unset := ff.meaning(cond, val != cond.neg)
		if want {
			return set
		}
		return unset
	})
}
