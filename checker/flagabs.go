package main

// The freeze flag of the name space, whatever it is called and however it is represented. The execution gates
// record, under the lock, that the set was executed; checkCanParse and Clone consult that record. The rules used
// to look for a boolean field by name; here the record is found by what the gates do — the field of nameSpace
// into which both gates store a non-zero constant — and a branch condition is read as "the flag is set" / "is
// not set" by evaluating it (folding helper methods such as phase.frozen()) for the stored constant and for the
// zero value.

import (
	"go/constant"
	"go/token"
	"go/types"

	"golang.org/x/tools/go/ssa"
)

type freezeFlag struct {
	p       *Program
	field   int
	name    string
	setVals []*ssa.Const // the constants the gates store
	bits    bool         // the gates set a bit of a flag set (flags |= K) instead of storing a value
}

// orIntoSame: val is (*addr) | K (either order) for a non-zero constant K — setting bits of the set kept at addr.
func orIntoSame(addr, val ssa.Value) (*ssa.Const, bool) {
	bo, ok := val.(*ssa.BinOp)
	if !ok || bo.Op != token.OR {
		return nil, false
	}
	for _, pr := range [][2]ssa.Value{{bo.X, bo.Y}, {bo.Y, bo.X}} {
		ld, ok := pr[0].(*ssa.UnOp)
		if !ok || ld.Op != token.MUL || !sameFieldAddr(ld.X, addr) {
			continue
		}
		if k, ok := nonZeroConst(pr[1]); ok && k.Value.Kind() == constant.Int {
			return k, true
		}
	}
	return nil, false
}

// sameFieldAddr: the two addresses are the same field of the same object (the same value, or the same field
// selected from the same pointer value).
func sameFieldAddr(a, b ssa.Value) bool {
	if a == b {
		return true
	}
	fa, ok1 := a.(*ssa.FieldAddr)
	fb, ok2 := b.(*ssa.FieldAddr)
	if !ok1 || !ok2 || fa.Field != fb.Field {
		return false
	}
	if fa.X == fb.X {
		return true
	}
	// both select from a load of the same place (t.nameSpace read twice without a store in between is not
	// assumed: only the identical load counts)
	return false
}

func isNameSpacePtr(t types.Type) bool {
	pt, ok := t.Underlying().(*types.Pointer)
	if !ok {
		return false
	}
	n, ok := pt.Elem().(*types.Named)
	return ok && n.Obj().Pkg() != nil && n.Obj().Pkg().Path() == pkgTemplate && canonName(n.Obj()) == "nameSpace"
}

func nonZeroConst(v ssa.Value) (*ssa.Const, bool) {
	k, ok := v.(*ssa.Const)
	if !ok || k.Value == nil {
		return nil, false
	}
	switch k.Value.Kind() {
	case constant.Bool:
		return k, constant.BoolVal(k.Value)
	case constant.Int:
		n, ok := constant.Int64Val(k.Value)
		return k, ok && n != 0
	}
	return nil, false
}

// discoverFreezeFlag: the field of nameSpace that every execution gate stores a non-zero constant into.
func discoverFreezeFlag(p *Program) *freezeFlag {
	var ff *freezeFlag
	nPlain, nBits := 0, 0
	for _, name := range []string{"(*Template).escape", "(*Template).lookupAndEscapeTemplate"} {
		f := p.Func("template", name)
		if f == nil {
			return nil
		}
		fields := map[int][]*ssa.Const{}
		scan := append([]*ssa.BasicBlock(nil), f.Blocks...)
		for _, h := range nameSpaceHelpers(f) {
			scan = append(scan, h.Blocks...)
		}
		for _, b := range scan {
			for _, in := range b.Instrs {
				st, ok := in.(*ssa.Store)
				if !ok {
					continue
				}
				fa, ok := st.Addr.(*ssa.FieldAddr)
				if !ok || !isNameSpacePtr(fa.X.Type()) {
					continue
				}
				if k, ok := nonZeroConst(st.Val); ok {
					fields[fa.Field] = append(fields[fa.Field], k)
					nPlain++
				} else if k, ok := orIntoSame(st.Addr, st.Val); ok {
					fields[fa.Field] = append(fields[fa.Field], k)
					nBits++
				}
			}
		}
		if len(fields) != 1 {
			return nil
		}
		for fld, ks := range fields {
			if ff == nil {
				ff = &freezeFlag{p: p, field: fld}
			} else if ff.field != fld {
				return nil
			}
			ff.setVals = append(ff.setVals, ks...)
		}
	}
	if ff != nil && nBits > 0 {
		// a bit of a set: every gate sets the same bit, and none stores a whole value
		if nPlain > 0 {
			return nil
		}
		for _, k := range ff.setVals[1:] {
			if !constant.Compare(k.Value, token.EQL, ff.setVals[0].Value) {
				return nil
			}
		}
		ff.bits = true
	}
	if ff != nil {
		if sp := p.SSAPkg("template"); sp != nil {
			if tn, ok := sp.Pkg.Scope().Lookup(currentName(p, "template", "nameSpace")).(*types.TypeName); ok {
				if st, ok := tn.Type().Underlying().(*types.Struct); ok && ff.field < st.NumFields() {
					ff.name = st.Field(ff.field).Name()
				}
			}
		}
	}
	return ff
}

// currentName: the name a baseline type has in the current tree (the baseline name when it was not renamed).
func currentName(p *Program, rel, base string) string {
	if sp := p.SSAPkg(rel); sp != nil {
		for n, m := range sp.Members {
			if t, ok := m.(*ssa.Type); ok && canonName(t.Object()) == base {
				return n
			}
		}
	}
	return base
}

// isFlagAddr: addr is &ns.<flag> for a name space ns.
func (ff *freezeFlag) isFlagAddr(addr ssa.Value) bool {
	fa, ok := addr.(*ssa.FieldAddr)
	return ok && fa.Field == ff.field && isNameSpacePtr(fa.X.Type())
}

// setStores: the stores in f that set the flag.
func (ff *freezeFlag) setStores(f *ssa.Function) []*ssa.Store {
	var out []*ssa.Store
	for _, b := range f.Blocks {
		for _, in := range b.Instrs {
			if st, ok := in.(*ssa.Store); ok && ff.isFlagAddr(st.Addr) {
				if ff.bits {
					if k, ok := orIntoSame(st.Addr, st.Val); ok && constant.Compare(k.Value, token.EQL, ff.setVals[0].Value) {
						out = append(out, st)
					}
				} else if _, ok := nonZeroConst(st.Val); ok {
					out = append(out, st)
				}
			}
		}
	}
	return out
}

// flagLoad: the load of the flag that the condition is computed from (nil if it reads anything else of the heap).
func (ff *freezeFlag) flagLoad(cond ssa.Value, depth int) ssa.Value {
	if depth > 6 {
		return nil
	}
	switch x := cond.(type) {
	case *ssa.UnOp:
		if x.Op == token.MUL {
			if ff.isFlagAddr(x.X) {
				return x
			}
			return nil
		}
		return ff.flagLoad(x.X, depth+1)
	case *ssa.BinOp:
		if l := ff.flagLoad(x.X, depth+1); l != nil {
			return l
		}
		return ff.flagLoad(x.Y, depth+1)
	case *ssa.Call:
		for _, a := range x.Common().Args {
			if l := ff.flagLoad(a, depth+1); l != nil {
				return l
			}
		}
	case *ssa.Convert:
		return ff.flagLoad(x.X, depth+1)
	case *ssa.ChangeType:
		return ff.flagLoad(x.X, depth+1)
	}
	return nil
}

// meaning: what the branch condition cond, taken with value val, says about the flag: set (it holds for every
// constant the gates store and fails for the zero value), unset (the other way round), or nothing.
func (ff *freezeFlag) meaning(av atomVal, val bool) (set, unset bool) {
	cond := av.v
	load := ff.flagLoad(cond, 0)
	if load == nil {
		// a condition of a spliced helper on a parameter that stands for the flag
		for prm, arg := range av.bind {
			a := arg
			for i := 0; i < 4; i++ {
				if w, ok := av.bind[a]; ok {
					a = w
					continue
				}
				break
			}
			if l := ff.flagLoad(a, 0); l != nil && l == a && dependsOn(cond, prm, 0) {
				load = prm
			}
		}
	}
	// an accessor that is handed the name space itself (ns.frozen(), ns.has(bit)): the name space is a record
	// whose flag field holds the value under evaluation and whose other fields are unknown
	var cur *ssa.Const
	opaque := func(v ssa.Value) (cval, bool) {
		if prm, ok := v.(*ssa.Parameter); ok {
			// a parameter of a spliced helper that a constant was passed for
			var a ssa.Value = prm
			for i := 0; i < 4; i++ {
				w, ok := av.bind[a]
				if !ok {
					break
				}
				a = w
			}
			if k, ok := a.(*ssa.Const); ok && k.Value != nil {
				switch k.Value.Kind() {
				case constant.Bool:
					return cval{kind: cvBool, b: constant.BoolVal(k.Value)}, true
				case constant.Int:
					n, ok := constant.Int64Val(k.Value)
					return cval{kind: cvInt, i: n}, ok
				}
			}
		}
		if !isNameSpacePtr(v.Type()) || cur == nil {
			return cval{}, false
		}
		st, ok := v.Type().Underlying().(*types.Pointer).Elem().Underlying().(*types.Struct)
		if !ok || ff.field >= st.NumFields() {
			return cval{}, false
		}
		rec := cval{kind: cvStruct, elems: make([]cval, st.NumFields())}
		for i := range rec.elems {
			rec.elems[i] = cval{kind: cvNil}
		}
		fv, ok := zeroOf(st.Field(ff.field).Type())
		if !ok {
			return cval{}, false
		}
		if cur.Value != nil {
			switch cur.Value.Kind() {
			case constant.Bool:
				fv = cval{kind: cvBool, b: constant.BoolVal(cur.Value)}
			case constant.Int:
				n, _ := constant.Int64Val(cur.Value)
				fv = cval{kind: cvInt, i: wrapInt(n, st.Field(ff.field).Type())}
			}
		}
		rec.elems[ff.field] = fv
		return cval{kind: cvRef, cell: &ccell{v: rec}, idx: -1}, true
	}
	var flagType types.Type
	if load != nil {
		flagType = load.Type()
	} else if nsArg := nameSpaceArg(cond, 0); nsArg != nil {
		if st, ok := nsArg.Type().Underlying().(*types.Pointer).Elem().Underlying().(*types.Struct); ok && ff.field < st.NumFields() {
			flagType = st.Field(ff.field).Type()
		}
	}
	if flagType == nil {
		return false, false
	}
	evalFor := func(k *ssa.Const) (cval, bool) {
		cur = k
		return evalModeCondX(ff.p, cond, load, k, 0, opaque)
	}
	zero := ssa.NewConst(nil, flagType)
	vz, ok := evalFor(zero)
	if !ok || vz.kind != cvBool {
		return false, false
	}
	if ff.bits {
		// the condition must be a function of the bit alone: the same for {bit} and for every bit, the same
		// for no bit and for every other bit
		kv, _ := constant.Int64Val(ff.setVals[0].Value)
		others := ssa.NewConst(constant.MakeInt64(wrapInt(^kv, flagType)), flagType)
		all := ssa.NewConst(constant.MakeInt64(wrapInt(-1, flagType)), flagType)
		vo, ok1 := evalFor(others)
		va, ok2 := evalFor(all)
		if !ok1 || !ok2 || vo.kind != cvBool || va.kind != cvBool || vo.b != vz.b {
			return false, false
		}
		vk, ok := evalFor(ff.setVals[0])
		if !ok || vk.kind != cvBool || vk.b != va.b {
			return false, false
		}
	}
	allSet := true
	for _, k := range ff.setVals {
		vk, ok := evalFor(k)
		if !ok || vk.kind != cvBool {
			return false, false
		}
		if vk.b == vz.b {
			return false, false // the condition does not tell the two apart
		}
		if vk.b != val {
			allSet = false
		}
	}
	if allSet && vz.b != val {
		return true, false
	}
	if !allSet && vz.b == val {
		return false, true
	}
	return false, false
}

// pathSaysFlag: some condition assumed on the path says the flag is set (want=true) / not set (want=false).
func (ff *freezeFlag) pathSaysFlag(pe *pathExplorer, pth *cfgPath, want bool) bool {
	return pth.HasMatching(func(name string, val bool) bool {
		cond, ok := pe.AtomVals[name]
		if !ok {
			return false
		}
		set, unset := ff.meaning(cond, val != cond.neg)
		if want {
			return set
		}
		return unset
	})
}

// nameSpaceArg: a pointer to a name space among the arguments of the call(s) the condition is computed from.
func nameSpaceArg(v ssa.Value, depth int) ssa.Value {
	if depth > 4 {
		return nil
	}
	switch x := v.(type) {
	case *ssa.UnOp:
		if x.Op == token.NOT {
			return nameSpaceArg(x.X, depth+1)
		}
	case *ssa.BinOp:
		if a := nameSpaceArg(x.X, depth+1); a != nil {
			return a
		}
		return nameSpaceArg(x.Y, depth+1)
	case *ssa.Call:
		if staticCallee(x.Common()) == nil {
			return nil
		}
		for _, a := range x.Common().Args {
			if isNameSpacePtr(a.Type()) {
				return a
			}
		}
	}
	return nil
}

// checkFlagMonotone: once set, the freeze flag stays set. Every store into the flag field of a name space that
// was not allocated in the storing function keeps it set (the set value itself; for a bit set, an update that
// keeps the bit), no such name space is overwritten as a whole, and the address of the flag is not handed out.
func checkFlagMonotone(p *Program, r *Report, ff *freezeFlag, rule string) {
	tsp := p.SSAPkg("template")
	if ff == nil || tsp == nil {
		r.Undec(rule, "template.nameSpace#freeze-flag-kept", "", "the freeze flag was not identified")
		return
	}
	keeps := func(st *ssa.Store) (bool, string) {
		if !ff.bits {
			if _, ok := nonZeroConst(st.Val); ok {
				return true, ""
			}
			return false, "stores a value that is not the constant the execution gates store"
		}
		kv, _ := constant.Int64Val(ff.setVals[0].Value)
		bo, ok := st.Val.(*ssa.BinOp)
		if !ok {
			return false, "overwrites the whole flag set"
		}
		for _, pr := range [][2]ssa.Value{{bo.X, bo.Y}, {bo.Y, bo.X}} {
			ld, ok := pr[0].(*ssa.UnOp)
			if !ok || ld.Op != token.MUL || !sameFieldAddr(ld.X, st.Addr) {
				continue
			}
			switch bo.Op {
			case token.OR:
				return true, ""
			case token.AND:
				if n, ok := constInt(pr[1]); ok && int64(n)&kv == kv {
					return true, ""
				}
				return false, "masks the flag set with a value that does not keep the freeze bit"
			case token.AND_NOT:
				if pr[0] == bo.X {
					if n, ok := constInt(pr[1]); ok && int64(n)&kv == 0 {
						return true, ""
					}
				}
				return false, "clears bits of the flag set that may include the freeze bit"
			}
		}
		return false, "overwrites the whole flag set"
	}
	for _, f := range p.SrcFuncs() {
		if f.Pkg != tsp {
			continue
		}
		cn := "template." + shortFn(f)
		okAll, why, n := true, "", 0
		var pos token.Pos
		for _, b := range f.Blocks {
			for _, in := range b.Instrs {
				switch x := in.(type) {
				case *ssa.Store:
					if ff.isFlagAddr(x.Addr) {
						if isFreshBase(x.Addr, 0) {
							continue
						}
						n++
						if ok, w := keeps(x); !ok {
							okAll, why, pos = false, w, x.Pos()
						}
					} else if isNameSpacePtr(x.Addr.Type()) && !isFreshBase(x.Addr, 0) {
						n++
						okAll, why, pos = false, "overwrites a whole name space, and with it the flag", x.Pos()
					}
				case *ssa.FieldAddr:
					if !ff.isFlagAddr(x) {
						continue
					}
					for _, ref := range *x.Referrers() {
						switch rr := ref.(type) {
						case *ssa.Store:
							if rr.Addr == ssa.Value(x) {
								continue
							}
						case *ssa.UnOp:
							if rr.Op == token.MUL {
								continue
							}
						case *ssa.DebugRef:
							continue
						}
						n++
						okAll, why, pos = false, "hands out the address of the flag", x.Pos()
					}
				}
			}
		}
		if n == 0 {
			continue
		}
		if pos == token.NoPos {
			pos = f.Pos()
		}
		r.Check(okAll, rule, cn+"#freeze-flag-kept", p.Pos(pos), "every store into the freeze flag ("+ff.name+") of a shared name space keeps it set", "the freeze flag of a name space that may already have been executed can be cleared here ("+why+"): Parse, AddParseTree and Clone are accepted again after the first execution, on trees the escaper has already rewritten")
	}
}

// nameSpaceHelpers: the functions of the package that f calls with a name space as an argument (ns.freeze()).
func nameSpaceHelpers(f *ssa.Function) []*ssa.Function {
	var out []*ssa.Function
	for _, b := range f.Blocks {
		for _, in := range b.Instrs {
			c, ok := in.(*ssa.Call)
			if !ok {
				continue
			}
			g := staticCallee(c.Common())
			if g == nil || g.Pkg != f.Pkg || g.Blocks == nil {
				continue
			}
			for _, a := range c.Common().Args {
				if isNameSpacePtr(a.Type()) {
					out = append(out, g)
					break
				}
			}
		}
	}
	return out
}

// setPoints: the instructions of f at which the flag is set: its own stores, and calls of helpers that set the
// flag of the name space handed to them on every path.
func (ff *freezeFlag) setPoints(f *ssa.Function) []ssa.Instruction {
	var out []ssa.Instruction
	for _, st := range ff.setStores(f) {
		out = append(out, st)
	}
	for _, b := range f.Blocks {
		for _, in := range b.Instrs {
			c, ok := in.(*ssa.Call)
			if !ok {
				continue
			}
			g := staticCallee(c.Common())
			if g == nil || g.Pkg != f.Pkg || g.Blocks == nil {
				continue
			}
			hasNS := false
			for _, a := range c.Common().Args {
				if isNameSpacePtr(a.Type()) {
					hasNS = true
				}
			}
			if !hasNS {
				continue
			}
			sets := ff.setStores(g)
			if len(sets) == 0 {
				continue
			}
			// on every path of the helper
			all := true
			for _, ret := range Returns(g) {
				dominated := false
				for _, st := range sets {
					if st.Block().Dominates(ret.Block()) {
						dominated = true
					}
				}
				if !dominated {
					all = false
				}
			}
			if all {
				out = append(out, c)
			}
		}
	}
	return out
}
