package main

import (
	"fmt"
	"go/token"
	"go/types"
	"os"
	"strings"

	"golang.org/x/tools/go/ssa"
)

func init() { register("C07", "other", runC07) }

var textSetMutators = map[string]bool{
	"(*text/template.Template).Parse":        true,
	"(*text/template.Template).AddParseTree": true,
	"(*text/template.Template).New":          true,
}

func runC07(p *Program, r *Report) {
	r.Trusted = []string{"go/types + go/ssa", "sync.Mutex", "(*text/template.Template).Clone returns an independent set; (*parse.Tree).Copy is a deep copy"}
	r.NotDecided = []string{"equality of outputs over interleavings", "(*Template).New(existing name) after execution (observation O1: the statement speaks of Parse* only)"}
	r.Explain = "Parse gating: in every function of package template that can reach a mutation of the text/template set from an exported Parse* entry point, the mutation (or the call that leads to it) is guarded on all paths by checkCanParse() == nil on the template it mutates; checkCanParse returns non-nil exactly when nameSpace.escaped is set, under the lock. Freeze flag: both execution gates store escaped = true on every path, after taking the lock. Clone: refuses executed templates (receiver and every member), allocates a fresh nameSpace with an escaper built from it, gives every Template literal the fresh name space and the cloned text template, and stores into every cloned member a Copy() of its tree."
	for _, m := range []struct {
		r string
		n int
	}{{"C07.R1", 10}, {"C07.R2", 2}, {"C07.R3", 8}, {"C07.R4", 1}, {"C07.R5", 5}, {"C07.R6", 1}} {
		r.Min(m.r, m.n)
	}
	checkAliasReset(p, r, "C07.R4")
	checkSetNameSpacePairing(p, r, "C07.R5")
	tsp := p.SSAPkg("template")
	pv := NewProv(p)
	pv.NoInline = true
	ccp := findCheckCanParse(p)
	if ccp == nil {
		r.Undec("C07.R1", "template.(*Template).checkCanParse", "", "anchor not found")
		return
	}
	ff := discoverFreezeFlag(p)
	if ff == nil {
		r.Undec("C07.R2", "template.nameSpace#freeze-flag", "", "the execution gates do not both store a non-zero constant into one and the same field of the name space")
	} else {
		r.OK("C07.R2", "template.nameSpace#freeze-flag", "", "the freeze flag is the field of the name space that both execution gates set: "+ff.name)
	}
	checkFlagMonotone(p, r, ff, "C07.R6")
	// a template whose body was escaped cleanly keeps its tree: callers that were already executed go on calling it
	checkTreeEmptiedOnlyOnBodyFailure(p, r, "C07.R7")
	// checkCanParse: non-nil iff escaped, read under the lock
	{
		pe := newPathExplorer(p, ccp)
		okAll := true
		n := 0
		for _, pth := range pe.Paths() {
			v, zero, ok := pth.ResultValue(0)
			if !ok {
				continue
			}
			n++
			isNil := zero || isNilConst(v)
			if os.Getenv("C07_DEBUG") != "" {
				fmt.Println("C07 ccp path:", pth.String())
			}
			escapedTrue := ff != nil && ff.pathSaysFlag(pe, pth, true)
			nilRecv := pth.HasMatching(func(name string, val bool) bool { return val && strings.HasPrefix(name, "(== param:t nil)") })
			if isNil && escapedTrue {
				okAll = false
			}
			if !isNil && !escapedTrue {
				okAll = false
			}
			_ = nilRecv
		}
		locked := len(callsIn(ccp, "(*sync.Mutex).Lock")) == 1
		r.Check(okAll && n >= 2 && locked, "C07.R1", "template.(*Template).checkCanParse", p.Pos(ccp.Pos()), "returns an error exactly on the paths where nameSpace.escaped is set, read under the lock", "checkCanParse does not report exactly the escaped flag (or reads it without the lock)")
	}
	// needsGate(f): f contains a mutator call or a call to a function that needs a gate, not guarded by checkCanParse()==nil
	type result struct {
		needs bool
		why   string
	}
	memo := map[*ssa.Function]*result{}
	gateOK := func(b *ssa.BasicBlock) bool {
		return allPathsGuard(pv, b, func(a Atom) bool {
			if !a.Pol || a.E.Op != "binop" || a.E.Name != "==" || a.E.Args[1].Op != "const" || a.E.Args[1].Const != nil {
				return false
			}
			c := a.E.Args[0]
			return c.Op == "call" && c.Fn == ccp && len(c.Args) == 1 && c.Args[0].Op == "param"
		}, 0)
	}
	var needsGate func(f *ssa.Function, depth int) *result
	needsGate = func(f *ssa.Function, depth int) *result {
		if res, ok := memo[f]; ok {
			return res
		}
		res := &result{}
		memo[f] = res
		if depth > 8 || f.Blocks == nil {
			return res
		}
		for _, b := range f.Blocks {
			for _, in := range b.Instrs {
				c, ok := in.(*ssa.Call)
				if !ok {
					continue
				}
				g := staticCallee(c.Common())
				if g == nil {
					// a function value called dynamically (readFile callback): not a set mutator
					continue
				}
				name := fnName(g)
				needs := ""
				if textSetMutators[name] {
					needs = name
				} else if g.Pkg == tsp && g != ccp {
					if sub := needsGate(g, depth+1); sub.needs {
						needs = fnName(g) + " → " + sub.why
					}
				}
				if needs == "" {
					continue
				}
				if gateOK(b) {
					continue
				}
				res.needs = true
				res.why = fmt.Sprintf("%s (%s)", needs, p.Pos(c.Pos()))
			}
		}
		return res
	}
	nEntry := 0
	for _, f := range p.SrcFuncs() {
		if f.Pkg != tsp || f.Object() == nil || !f.Object().Exported() || !strings.HasPrefix(f.Name(), "Parse") || f.Parent() != nil {
			continue
		}
		nEntry++
		res := needsGate(f, 0)
		r.Check(!res.needs, "C07.R1", "template."+strings.TrimPrefix(fnName(f), pkgTemplate+".")+"#gated", p.Pos(f.Pos()), "every mutation of the template set reachable from this entry point is preceded by checkCanParse() == nil",
			"the template set can be mutated without consulting the freeze flag: "+res.why)
	}
	if nEntry < 10 {
		r.Undec("C07.R1", "template#Parse-entry-points", "", fmt.Sprintf("expected at least 10 exported Parse* entry points, found %d", nEntry))
	}
	// (*Template).new is itself a mutator of the safe set: it must only be reached under a gate or from New
	// ---- R2 freeze flag -----------------------------------------------------------------
	for _, name := range []string{"(*Template).escape", "(*Template).lookupAndEscapeTemplate"} {
		f := p.Func("template", name)
		if f == nil {
			r.Undec("C07.R2", "template."+name, "", "anchor not found")
			continue
		}
		var flagStores []ssa.Instruction
		if ff != nil {
			flagStores = ff.setPoints(f)
		}
		locks := callsIn(f, "(*sync.Mutex).Lock")
		pe := newPathExplorer(p, f)
		okAll := len(flagStores) > 0 && len(locks) > 0
		n := 0
		for _, pth := range pe.Paths() {
			if _, isRet := pth.End().(*ssa.Return); !isRet {
				continue
			}
			n++
			if !pathPassesAny(pth, flagStores) {
				okAll = false
			}
		}
		for _, st := range flagStores {
			lockedBefore := false
			for _, l := range locks {
				if before(l, st) {
					lockedBefore = true
				}
			}
			if !lockedBefore {
				okAll = false
			}
		}
		r.Check(okAll && n > 0, "C07.R2", "template."+name+"#sets-escaped", p.Pos(f.Pos()), "every path stores escaped = true, after taking the lock", "a path through the execution gate does not mark the set as executed (or does so before taking the lock)")
	}
	// ---- R3 Clone --------------------------------------------------------------------------
	checkClone(p, r, pv)
}

func checkClone(p *Program, r *Report, pv *Prov) {
	fn := p.Func("template", "(*Template).Clone")
	const cn = "template.(*Template).Clone"
	if fn == nil {
		r.Undec("C07.R3", cn, "", "anchor not found")
		return
	}
	// A struct literal of the function, or a call of a package helper that builds and returns one
	// (newNameSpace(), newTemplateIn(ns, text, tree)): the value, and what each field is set to.
	type lit struct {
		Val    ssa.Value // the *T value in fn
		Fields map[string]ssa.Value
		Block  *ssa.BasicBlock
		Pos    string
		EscOK  bool // nameSpace only: esc = makeEscaper(this name space)
	}
	fieldsOfAlloc := func(al *ssa.Alloc) map[string]ssa.Value {
		m := map[string]ssa.Value{}
		for _, ref := range *al.Referrers() {
			fa, ok := ref.(*ssa.FieldAddr)
			if !ok {
				continue
			}
			for _, rr := range *fa.Referrers() {
				if st, ok := rr.(*ssa.Store); ok && st.Addr == ssa.Value(fa) {
					m[fieldName(fa.X.Type(), fa.Field)] = st.Val
				}
			}
		}
		return m
	}
	escOfAlloc := func(al *ssa.Alloc, fields map[string]ssa.Value) bool {
		if c, ok := fields["esc"].(*ssa.Call); ok {
			if g := staticCallee(c.Common()); g != nil && cname(g) == "makeEscaper" && c.Common().Args[0] == ssa.Value(al) {
				return true
			}
		}
		return false
	}
	// ctorCall: call of a helper all of whose returns are one heap-allocated struct built in the helper
	ctorCall := func(c *ssa.Call) (*lit, types.Type) {
		g := staticCallee(c.Common())
		if g == nil || g.Pkg != fn.Pkg || g.Blocks == nil || g.Signature.Results().Len() != 1 {
			return nil, nil
		}
		var al *ssa.Alloc
		for _, ret := range Returns(g) {
			a, ok := ret.Results[0].(*ssa.Alloc)
			if !ok || !a.Heap || (al != nil && al != a) {
				return nil, nil
			}
			al = a
		}
		if al == nil {
			return nil, nil
		}
		inner := fieldsOfAlloc(al)
		l := &lit{Val: c, Fields: map[string]ssa.Value{}, Block: c.Block(), Pos: p.Pos(c.Pos())}
		for name, v := range inner {
			for i, prm := range g.Params {
				if v == ssa.Value(prm) && i < len(c.Common().Args) {
					l.Fields[name] = c.Common().Args[i]
				}
			}
			if _, bound := l.Fields[name]; !bound {
				if k, ok := v.(*ssa.Const); ok {
					l.Fields[name] = k
				}
			}
		}
		l.EscOK = escOfAlloc(al, inner)
		return l, al.Type().(*types.Pointer).Elem()
	}
	var nsLits, tmplLits []*lit
	var textClone *ssa.Call
	for _, b := range fn.Blocks {
		for _, in := range b.Instrs {
			switch x := in.(type) {
			case *ssa.Alloc:
				if !x.Heap {
					continue
				}
				el := x.Type().(*types.Pointer).Elem()
				f := fieldsOfAlloc(x)
				l := &lit{Val: x, Fields: f, Block: x.Block(), Pos: p.Pos(x.Pos())}
				if isNamed(el, pkgTemplate, "nameSpace") {
					l.EscOK = escOfAlloc(x, f)
					nsLits = append(nsLits, l)
				}
				if isNamed(el, pkgTemplate, "Template") {
					tmplLits = append(tmplLits, l)
				}
			case *ssa.Call:
				if g := staticCallee(x.Common()); g != nil && fnName(g) == "(*text/template.Template).Clone" {
					textClone = x
				}
				if l, el := ctorCall(x); l != nil {
					if isNamed(el, pkgTemplate, "nameSpace") {
						nsLits = append(nsLits, l)
					}
					if isNamed(el, pkgTemplate, "Template") {
						tmplLits = append(tmplLits, l)
					}
				}
			}
		}
	}
	if len(nsLits) != 1 || textClone == nil || len(tmplLits) == 0 {
		r.Undec("C07.R3", cn, p.Pos(fn.Pos()), "fresh nameSpace / text clone / Template literals not found")
		return
	}
	freshNS := nsLits[0].Val
	r.OK("C07.R3", cn+"#fresh-namespace", nsLits[0].Pos, "allocates a new nameSpace")
	// escaper built from the fresh name space (in the literal's helper, or by a store in this function)
	escOK := nsLits[0].EscOK
	for _, st := range storesToField(fn, pkgTemplate, "nameSpace", "esc") {
		if fa := st.Addr.(*ssa.FieldAddr); fa.X == freshNS {
			if c, ok := st.Val.(*ssa.Call); ok {
				if g := staticCallee(c.Common()); g != nil && cname(g) == "makeEscaper" && c.Common().Args[0] == freshNS {
					escOK = true
				}
			}
		}
	}
	r.Check(escOK, "C07.R3", cn+"#fresh-escaper", p.Pos(fn.Pos()), "the clone's escaper is makeEscaper(fresh nameSpace)", "the clone does not get an escaper of its own built from the fresh name space")
	derivesFromClone := func(v ssa.Value) bool {
		e := pv.Of(v)
		ok := false
		e.Walk(func(x *Expr) bool {
			if x.Val == ssa.Value(textClone) {
				ok = true
			}
			return true
		})
		return ok
	}
	var tmplBlocks []*ssa.BasicBlock
	for i, tl := range tmplLits {
		tmplBlocks = append(tmplBlocks, tl.Block)
		c := fmt.Sprintf("%s#template-literal%d", cn, i)
		pos := tl.Pos
		nsVal, textVal, treeVal := tl.Fields["nameSpace"], tl.Fields["text"], tl.Fields["Tree"]
		nsOK := nsVal == freshNS
		if !nsOK && nsVal != nil {
			e := pv.Of(nsVal)
			nsOK = e.Val == freshNS || (e.Op == "alloc" && e.Val == freshNS)
			// the name space of an earlier literal of this function (ret.nameSpace)
			if !nsOK && e.Op == "field" && e.Name == "nameSpace" && len(e.Args) == 1 {
				for _, other := range tmplLits {
					if e.Args[0].Val == other.Val && other.Fields["nameSpace"] == freshNS {
						nsOK = true
					}
				}
			}
		}
		desc := "<unset>"
		if nsVal != nil {
			desc = pv.Of(nsVal).String()
		}
		r.Check(nsOK, "C07.R3", c+"#namespace", pos, "carries the fresh name space", "a cloned Template shares a name space with the original: "+desc)
		r.Check(textVal != nil && derivesFromClone(textVal), "C07.R3", c+"#text", pos, "wraps a member of the cloned text/template set", "a cloned Template wraps a text template of the original set")
		// tree: for members created in the loop, the tree must be the Copy() stored into x.Tree just before
		inLoop := false
		for _, b := range fn.Blocks {
			for _, su := range b.Succs {
				if su.Dominates(b) && su.Dominates(tl.Block) {
					inLoop = true
				}
			}
		}
		if inLoop {
			okTree := false
			if u, ok := treeVal.(*ssa.UnOp); ok {
				if fa, ok := u.X.(*ssa.FieldAddr); ok {
					// the last store to that field before the load is a Copy() result
					for _, st := range storesToField(fn, "text/template", "Template", "Tree") {
						sfa := st.Addr.(*ssa.FieldAddr)
						if sfa.X == fa.X && before(st, u) && storeOnEveryPath(st, u) {
							if cp, ok := isCallTo(st.Val, "(*text/template/parse.Tree).Copy"); ok {
								// copy of the same template's own tree: x.Tree = x.Tree.Copy(), not the tree of another
								// object (the exported Tree field of the source wrapper can be replaced by a client)
								src := pv.Of(cp.Common().Args[0])
								okTree = src.Op == "field" && src.Name == "Tree"
								if ld, isLd := cp.Common().Args[0].(*ssa.UnOp); isLd {
									if afa, isFA := ld.X.(*ssa.FieldAddr); isFA {
										okTree = okTree && afa.X == sfa.X
									} else {
										okTree = false
									}
								} else {
									okTree = false
								}
							}
						}
					}
				}
			}
			r.Check(okTree, "C07.R3", c+"#tree", pos, "its parse tree is a Copy() made for the clone", "a cloned member keeps a parse tree that is not a fresh Copy(): analysing the clone would rewrite a tree it shares")
		}
	}
	// guards: receiver and every member not executed
	pe := newPathExplorer(p, fn)
	pe.Inline = true
	okRecv, okMember, okSet := true, true, true
	n := 0
	for _, pth := range pe.Paths() {
		v, zero, ok := pth.ResultValue(1)
		if !ok || !(zero || isNilConst(v)) {
			continue
		}
		n++
		// the receiver must not have been analysed: the conditions on the path are only possible for a fresh record
		if ts := discoverTmplStatus(p).withSubject(pe, fn.Params[0]); ts.pathFeasible(pe, pth) && !ts.pathImplies(pe, pth, "fresh") {
			okRecv = false
			if os.Getenv("C07_DEBUG") != "" {
				fmt.Println("C07 recv path:", pth.String(), "subject", ts.subject)
				for nm := range pth.Atoms {
					if av, have := pe.AtomVals[nm]; have {
						b, okb := ts.baseOf(pe, av)
						fmt.Printf("   atom %s base=%q %v cond=%s\n", nm, b, okb, av.v)
					}
				}
			}
		}
		// the per-template marks can be lost (New with the name of an executed template replaces it by
		// a fresh one): the freeze flag of the name space is the only record that the trees were rewritten
		if os.Getenv("C07_DEBUG") != "" {
			fmt.Println("C07 clone path:", pth.String())
		}
		if ff := discoverFreezeFlag(p); ff == nil || !ff.pathSaysFlag(pe, pth, false) {
			okSet = false
		}
	}
	// member guard: the Template literal in the loop is dominated by src != nil ∧ src.escapeErr == nil
	for _, alBlock := range tmplBlocks {
		inLoop := false
		for _, b := range fn.Blocks {
			for _, su := range b.Succs {
				if su.Dominates(b) && su.Dominates(alBlock) {
					inLoop = true
				}
			}
		}
		if !inLoop {
			continue
		}
		hasNil := allPathsGuard(pv, alBlock, func(a Atom) bool {
			return !a.Pol && a.E.Op == "binop" && a.E.Name == "==" && a.E.Args[0].Op == "lookup" && a.E.Args[1].Op == "const" && a.E.Args[1].Const == nil
		}, 0)
		// … and the member's record is the fresh one: on every path some test excludes "analysed successfully" and some
		// test excludes "failed" (one and the same test, src.escapeErr == nil, in the usual representation)
		ts := discoverTmplStatus(p)
		hasErr := allPathsGuard(pv, alBlock, func(a Atom) bool {
			v, pol := atomCond(a)
			return v != nil && ts.condExcludes(v, pol, "ok")
		}, 0) && allPathsGuard(pv, alBlock, func(a Atom) bool {
			v, pol := atomCond(a)
			return v != nil && ts.condExcludes(v, pol, "failed")
		}, 0)
		if !hasNil || !hasErr {
			okMember = false
		}
	}
	r.Check(okRecv && n > 0, "C07.R3", cn+"#refuses-executed-receiver", p.Pos(fn.Pos()), "succeeds only if the receiver has not been executed (escapeErr == nil)", "Clone can succeed for a template that has already been executed")
	r.Check(okSet && n > 0, "C07.R3", cn+"#refuses-executed-set", p.Pos(fn.Pos()), "succeeds only while the name space's freeze flag (escaped) is unset", "Clone never consults the freeze flag of the name space: after root.New(\"root\") replaced the executed template by a fresh one, a set whose trees were already rewritten is cloned and the clone sanitizes twice")
	r.Check(okMember, "C07.R3", cn+"#refuses-executed-member", p.Pos(fn.Pos()), "a member is cloned only if it exists in the original set and has not been executed", "Clone copies a member that has already been executed (and rewritten)")
}

// storeOnEveryPath: the store st is executed on every path to the use u, except on paths that skipped it because
// the stored location held nil (a nil tree needs no copy).
func storeOnEveryPath(st *ssa.Store, u ssa.Instruction) bool {
	if st.Block() == u.Block() || st.Block().Dominates(u.Block()) {
		return true
	}
	// the guards under which the store runs and the use does not
	useGuards := map[ssa.Value]bool{}
	for _, g := range GuardsOf(u.Block()) {
		useGuards[g.Cond] = true
	}
	for _, g := range GuardsOf(st.Block()) {
		if useGuards[g.Cond] {
			continue
		}
		bo, ok := g.Cond.(*ssa.BinOp)
		if !ok || (bo.Op != token.NEQ && bo.Op != token.EQL) || (bo.Op == token.NEQ) != g.Pol {
			return false
		}
		var other ssa.Value
		switch {
		case isNilConst(bo.Y):
			other = bo.X
		case isNilConst(bo.X):
			other = bo.Y
		default:
			return false
		}
		// the tested value is a load of the location that is stored to
		ld, ok := other.(*ssa.UnOp)
		if !ok {
			return false
		}
		fa, ok1 := ld.X.(*ssa.FieldAddr)
		sfa, ok2 := st.Addr.(*ssa.FieldAddr)
		if !ok1 || !ok2 || fa.X != sfa.X || fa.Field != sfa.Field {
			return false
		}
	}
	// and the block that skips the store must rejoin before the use: the store's block reaches the use
	return forwardReach(st.Block(), u.Block())
}
