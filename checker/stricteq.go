package main

// Strict equality of contexts. join() returns its first operand when the two contexts are "equal";
// whatever eq() does not compare is dropped from the second branch. Every field that eq() reads must
// therefore be compared by plain equality with the same field of the other operand on every path on
// which eq() can answer true: a relaxed comparison (a subset test, a prefix test, a comparison after
// normalisation) makes join() keep one branch's value for a field in which the branches differ.
//
// The rule is computed from the SSA form of eq() and of the helpers it hands fields to: along every
// acyclic path to a return whose result may be true, the branch conditions taken positively and the
// returned value yield "equality facts" (operand field == same field of the other operand, directly or
// through a helper that is itself strict); the fields read must be covered by the facts.

import (
	"fmt"
	"go/token"
	"go/types"
	"sort"
	"strings"

	"golang.org/x/tools/go/ssa"
)

// operandPaths maps the values of fn that designate (a field of) parameter #idx to the field path.
func operandPaths(fn *ssa.Function, idx int) map[ssa.Value]string {
	out := map[ssa.Value]string{}
	if idx >= len(fn.Params) {
		return out
	}
	var visit func(v ssa.Value, path string, depth int)
	visit = func(v ssa.Value, path string, depth int) {
		if depth > 8 {
			return
		}
		if old, seen := out[v]; seen && old == path {
			return
		}
		out[v] = path
		refs := v.Referrers()
		if refs == nil {
			return
		}
		for _, ref := range *refs {
			switch x := ref.(type) {
			case *ssa.FieldAddr:
				if x.X == v {
					visit(x, join2(path, fieldName(x.X.Type(), x.Field)), depth+1)
				}
			case *ssa.Field:
				if x.X == v {
					visit(x, join2(path, fieldName(x.X.Type(), x.Field)), depth+1)
				}
			case *ssa.UnOp:
				if x.Op == token.MUL && x.X == v {
					visit(x, path, depth+1)
				}
			case *ssa.Store:
				if x.Val == v {
					if al, ok := x.Addr.(*ssa.Alloc); ok && singleStoreLoose(al) == x {
						visit(al, path, depth+1)
					}
				}
			}
		}
	}
	visit(fn.Params[idx], "", 0)
	return out
}

type strictEqResult struct {
	// Reads: field paths of the first operand that the function (and its helpers) look at
	Reads map[string]bool
	// Missing: field paths that some true-answering path does not compare by equality, with the position
	Missing map[string]token.Pos
	Problem string
}

// strictEq analyses a two-operand comparison function (operands at parameter indices 0 and 1).
func strictEq(p *Program, fn *ssa.Function, depth int, active map[*ssa.Function]bool) *strictEqResult {
	res := &strictEqResult{Reads: map[string]bool{}, Missing: map[string]token.Pos{}}
	if fn == nil || fn.Blocks == nil || len(fn.Params) < 2 || depth > 4 || active[fn] {
		res.Problem = "comparison helper cannot be analysed"
		return res
	}
	active[fn] = true
	defer delete(active, fn)
	pa, pb := operandPaths(fn, 0), operandPaths(fn, 1)
	isLeaf := func(v ssa.Value) bool {
		_, isStruct := v.Type().Underlying().(*types.Struct)
		return !isStruct
	}
	// what is read at all: leaf loads of operand 0 (operand 1 symmetric), and what is handed to helpers
	for v, path := range pa {
		if _, isLoadOrField := v.(*ssa.UnOp); isLoadOrField && isLeaf(v) {
			res.Reads[path] = true
		}
		if f, ok := v.(*ssa.Field); ok && isLeaf(f) {
			res.Reads[path] = true
		}
		if prm, ok := v.(*ssa.Parameter); ok && isLeaf(prm) && !isAddrOfStruct(prm) {
			res.Reads[path] = true
		}
	}
	// facts of a condition value taken positively
	var factsOf func(v ssa.Value) (map[string]bool, string)
	factsOf = func(v ssa.Value) (map[string]bool, string) {
		switch x := v.(type) {
		case *ssa.BinOp:
			if x.Op == token.EQL {
				p0, ok0 := pa[x.X]
				p1, ok1 := pb[x.Y]
				if !ok0 || !ok1 {
					p0, ok0 = pa[x.Y]
					p1, ok1 = pb[x.X]
				}
				if ok0 && ok1 && p0 == p1 {
					return map[string]bool{p0: true}, ""
				}
			}
		case *ssa.Call:
			g := staticCallee(x.Common())
			args := x.Common().Args
			if g != nil && len(args) >= 2 {
				p0, ok0 := pa[args[0]]
				p1, ok1 := pb[args[1]]
				if ok0 && ok1 && p0 == p1 {
					if g.Pkg != nil && strings.HasPrefix(g.Pkg.Pkg.Path(), modulePath) && g.Blocks != nil {
						sub := strictEq(p, g, depth+1, active)
						out := map[string]bool{}
						for r := range sub.Reads {
							full := joinPath(p0, r)
							res.Reads[full] = true
							if _, miss := sub.Missing[r]; !miss && sub.Problem == "" {
								out[full] = true
							}
						}
						for r, pos := range sub.Missing {
							if _, have := res.Missing[joinPath(p0, r)]; !have {
								res.Missing[joinPath(p0, r)] = pos
							}
						}
						if sub.Problem != "" {
							return out, sub.Problem
						}
						return out, ""
					}
					// a library comparison of the two values as a whole
					switch fnName(g) {
					case "strings.EqualFold":
					case "bytes.Equal", "reflect.DeepEqual", "slices.Equal":
						res.Reads[p0] = true
						return map[string]bool{p0: true}, ""
					}
					res.Reads[p0] = true
				}
			}
		case *ssa.UnOp:
			if x.Op == token.NOT {
				return nil, ""
			}
		}
		return nil, ""
	}
	// paths
	type state struct {
		b     *ssa.BasicBlock
		prev  *ssa.BasicBlock
		facts map[string]bool
	}
	var problems []string
	seenPaths := 0
	var walk func(st state, visited map[*ssa.BasicBlock]bool)
	valueMayBeTrue := func(v ssa.Value, st state) (bool, map[string]bool) {
		// resolve phis by the edge taken
		for i := 0; i < 4; i++ {
			phi, ok := v.(*ssa.Phi)
			if !ok || phi.Block() != st.b || st.prev == nil {
				break
			}
			for k, pr := range st.b.Preds {
				if pr == st.prev {
					v = phi.Edges[k]
					break
				}
			}
		}
		if c, ok := v.(*ssa.Const); ok {
			if c.Value != nil && c.Value.String() == "false" {
				return false, nil
			}
			return true, nil
		}
		f, prob := factsOf(v)
		if prob != "" {
			problems = append(problems, prob)
		}
		return true, f
	}
	walk = func(st state, visited map[*ssa.BasicBlock]bool) {
		seenPaths++
		if seenPaths > 4000 {
			problems = append(problems, "too many paths")
			return
		}
		if visited[st.b] {
			// a loop: the paths that leave it were explored from its first visit (no fact is gained by going round)
			return
		}
		visited[st.b] = true
		defer delete(visited, st.b)
		last := st.b.Instrs[len(st.b.Instrs)-1]
		switch x := last.(type) {
		case *ssa.Return:
			if len(x.Results) != 1 {
				return
			}
			// the returned value may itself be a phi of this block resolved by the edge: handled by valueMayBeTrue
			may, extra := valueMayBeTrue(x.Results[0], st)
			if !may {
				return
			}
			for r := range res.Reads {
				if !st.facts[r] && !extra[r] && !coveredByPrefix(r, st.facts, extra) {
					if _, have := res.Missing[r]; !have {
						res.Missing[r] = x.Pos()
					}
				}
			}
		case *ssa.If:
			tf, prob := factsOf(x.Cond)
			if prob != "" {
				problems = append(problems, prob)
			}
			nf := map[string]bool{}
			for k := range st.facts {
				nf[k] = true
			}
			for k := range tf {
				nf[k] = true
			}
			walk(state{st.b.Succs[0], st.b, nf}, visited)
			// the negative edge of "x != y" carries the fact
			ff := st.facts
			if bo, ok := x.Cond.(*ssa.BinOp); ok && bo.Op == token.NEQ {
				eq := &ssa.BinOp{Op: token.EQL, X: bo.X, Y: bo.Y}
				if f2, _ := factsOf(eq); len(f2) > 0 {
					ff = map[string]bool{}
					for k := range st.facts {
						ff[k] = true
					}
					for k := range f2 {
						ff[k] = true
					}
				}
			}
			walk(state{st.b.Succs[1], st.b, ff}, visited)
		case *ssa.Jump:
			walk(state{st.b.Succs[0], st.b, st.facts}, visited)
		}
	}
	walk(state{fn.Blocks[0], nil, map[string]bool{}}, map[*ssa.BasicBlock]bool{})
	if len(problems) > 0 {
		sort.Strings(problems)
		res.Problem = problems[0]
	}
	return res
}

// coveredByPrefix: a fact about a whole sub-struct ("attr") covers its fields ("attr.name").
func coveredByPrefix(r string, sets ...map[string]bool) bool {
	for _, s := range sets {
		for k := range s {
			if k == "" || strings.HasPrefix(r, k+".") {
				return true
			}
		}
	}
	return false
}

func isAddrOfStruct(v ssa.Value) bool {
	pt, ok := v.Type().Underlying().(*types.Pointer)
	if !ok {
		return false
	}
	_, isStruct := pt.Elem().Underlying().(*types.Struct)
	return isStruct
}

// checkContextEqStrict: every field context.eq reads is compared by plain equality on every path that answers true.
func checkContextEqStrict(p *Program, r *Report, rule string) {
	eq := p.Func("template", "context.eq")
	if eq == nil {
		r.Undec(rule, "template.context.eq", "", "anchor not found")
		return
	}
	res := strictEq(p, eq, 0, map[*ssa.Function]bool{})
	pos := p.Pos(eq.Pos())
	if res.Problem != "" {
		r.Undec(rule, "template.context.eq#strict", pos, res.Problem)
		return
	}
	var reads []string
	for k := range res.Reads {
		reads = append(reads, k)
	}
	sort.Strings(reads)
	if len(reads) == 0 {
		r.Undec(rule, "template.context.eq#strict", pos, "no field comparison found")
		return
	}
	for _, f := range reads {
		c := "template.context.eq#strict:" + f
		if mp, miss := res.Missing[f]; miss {
			r.Viol(rule, c, p.Pos(mp), fmt.Sprintf("context.eq can answer true for two contexts whose %s differ (the field is looked at but not compared by == on this path): join() then keeps the first branch's %s and the sanitizers are chosen for it alone", f, f), "")
		} else {
			r.OK(rule, c, pos, "compared by == with the same field of the other context on every path that answers true")
		}
	}
}

func joinPath(a, b string) string {
	if b == "" {
		return a
	}
	return join2(a, b)
}
