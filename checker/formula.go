package main

// Guard summaries as regular languages. A boolean-valued SSA value (or a
// bool-returning function) is turned into a propositional formula whose atoms
// are language-definable predicates of one string term (a parameter, possibly
// lower-cased); the formula is then evaluated to a DFA over all of Unicode.

import (
	"fmt"
	"go/constant"
	"go/token"
	"go/types"
	"os"
	"regexp"
	"strings"
	"unicode"

	"golang.org/x/tools/go/ssa"

	"safecheck/relang"
)

// Term is a string expression: parameter #Param of the summarised function
// with letter maps applied.
type Term struct {
	Param int
	Lower bool
	// Upper: unicode.ToUpper applied to every code point (strings.ToUpper / bytes.ToUpper)
	Upper bool
	// Strip, when set, means "the string with every (leftmost, non-overlapping)
	// match of this pattern removed" (ReplaceAllString(term, "")).
	Strip *RegexConst
	// Strip2: a second removal applied to the result of the first.
	Strip2 *RegexConst
	// Unesc: html.UnescapeString applied. Not a letter map: a term with Unesc
	// is treated as a string variable of its own (languages are over the
	// decoded string).
	Unesc bool
}

// Key identifies the string variable a term's languages are about.
func (t Term) Key() int {
	k := t.Param
	if t.Unesc {
		k += 1000
	}
	return k
}

type LAtom struct {
	Kind  string // search capeq containsAny contains hasprefix hassuffix eq empty
	Regex *RegexConst
	Group int
	K     string
	Set   *relang.Set
	Set2  *relang.Set // scan: symbols that reject at once (Set: symbols that accept at once)
	N     int         // scan: index of the first symbol looked at
	End   bool        // scan: verdict when the string ends without a deciding symbol
	Str   string
	Term  Term
	Desc  string
}

// propCall: a helper call kept as a proposition (see callForm).
type propCall struct {
	Fn   *ssa.Function
	Args []Term
}

type droppedGuard struct {
	Fn   *ssa.Function
	Args []Term
	Pol  bool
}

type Form struct {
	Op   string // and or not true false atom unknown
	Sub  []*Form
	Atom *LAtom
	Why  string
	// In: for an unknown, the function holding the value that could not be modelled.
	In *ssa.Function
}

func fTrue() *Form           { return &Form{Op: "true"} }
func fFalse() *Form          { return &Form{Op: "false"} }
func fNot(f *Form) *Form     { return &Form{Op: "not", Sub: []*Form{f}} }
func fAnd(fs ...*Form) *Form { return &Form{Op: "and", Sub: fs} }
func fOr(fs ...*Form) *Form  { return &Form{Op: "or", Sub: fs} }

// fOver marks a sub-formula that over-approximates the condition it stands
// for: it may be used as is in positive positions only; under a negation it is
// replaced by true.
func fOver(f *Form) *Form { return &Form{Op: "over", Sub: []*Form{f}} }

func fUnknown(why string) *Form {
	return &Form{Op: "unknown", Why: why}
}

func (f *Form) String() string {
	switch f.Op {
	case "true", "false":
		return f.Op
	case "unknown":
		return "unknown[" + f.Why + "]"
	case "atom":
		return f.Atom.Desc
	case "not":
		return "¬" + f.Sub[0].String()
	case "over":
		return "⌈" + f.Sub[0].String() + "⌉"
	case "over2":
		return "⌈" + f.Sub[0].String() + " / ¬: " + f.Sub[1].String() + "⌉"
	}
	var ss []string
	for _, s := range f.Sub {
		ss = append(ss, s.String())
	}
	sep := " ∧ "
	if f.Op == "or" {
		sep = " ∨ "
	}
	return "(" + strings.Join(ss, sep) + ")"
}

// UnknownIn returns the function holding the first unmodelled value.
func (f *Form) UnknownIn() *ssa.Function {
	if f.Op == "unknown" {
		return f.In
	}
	for _, s := range f.Sub {
		if u, _ := s.HasUnknown(); u {
			return s.UnknownIn()
		}
	}
	return nil
}

func (f *Form) HasUnknown() (bool, string) {
	if f.Op == "unknown" {
		return true, f.Why
	}
	for _, s := range f.Sub {
		if u, w := s.HasUnknown(); u {
			return true, w
		}
	}
	return false, ""
}

func (f *Form) Atoms(visit func(*LAtom)) {
	if f.Op == "atom" {
		visit(f.Atom)
	}
	for _, s := range f.Sub {
		s.Atoms(visit)
	}
}

// Summarizer converts SSA to formulas.
type Summarizer struct {
	prog    *Program
	pv      *Prov
	regexes map[string]*RegexConst // "pkg.var" -> constant
	// Inexact is set when a guard had to be dropped (result over-approximates).
	// Dropped: boolean helper calls that appeared as a branch condition on the way to the summarised
	// point but could not be modelled (e.g. a stack-based bracket matcher), with the polarity required there.
	Dropped   []droppedGuard
	PropCalls map[string]propCall
	phiActive map[*ssa.Phi]bool
	// ValueParams binds, while a helper is summarised for one call, its parameters that are not string terms
	// (patterns, tables, structs) to the caller's values
	ValueParams map[ssa.Value]ssa.Value
	loopCache   map[*ssa.Function][]*scanLoop
	enumLoops   map[*ssa.Function][]*enumLoop
	loopOK      map[*ssa.Function]bool
	Inexact     []string
	// InexactIn[i] is the function holding the value dropped in Inexact[i] (nil when not known).
	InexactIn []*ssa.Function
	// exits whose guards must be pairwise disjoint for exactness
	exitGroups [][]*Form
	depth      int
	regexCache map[*ssa.Global]*RegexConst
	// RegexParams: *regexp.Regexp parameters of a helper being evaluated for one particular call (bound to the caller's pattern)
	RegexParams map[ssa.Value]*RegexConst
	// ExtraTerm: terms of values that are not expressions over the parameters (the tokens of the output-language
	// evaluator), consulted by termOf where it would give up
	ExtraTerm       func(v ssa.Value) (Term, bool)
	regexFieldCache map[regexFieldKey]*RegexConst
}

func NewSummarizer(p *Program, regexes map[string]*RegexConst) *Summarizer {
	pv := NewProv(p)
	pv.NoInline = true
	return &Summarizer{prog: p, pv: pv, regexes: regexes}
}

// termEnv maps SSA values (parameters, or any value the caller designates as
// a string term) to terms.
type termEnv map[ssa.Value]Term

// termOf resolves a string-valued SSA value to a Term.
func (s *Summarizer) termOf(v ssa.Value, env termEnv) (Term, bool) {
	for i := 0; i < 20; i++ {
		if t, ok := env[v]; ok {
			return t, true
		}
		switch x := v.(type) {
		case *ssa.Parameter:
			return Term{}, false
		case *ssa.Convert:
			if isStringish(x.X.Type()) && isStringish(x.Type()) {
				v = x.X
				continue
			}
			return Term{}, false
		case *ssa.ChangeType:
			if isStringish(x.X.Type()) && isStringish(x.Type()) {
				v = x.X
				continue
			}
			return Term{}, false
		case *ssa.Extract:
			if s.ExtraTerm != nil {
				if t, ok := s.ExtraTerm(x); ok {
					return t, true
				}
			}
			// result #k of a repository function whose non-constant returns all yield the same term
			if call, ok := x.Tuple.(*ssa.Call); ok {
				if f := staticCallee(call.Common()); f != nil && f.Blocks != nil && f.Pkg != nil && strings.HasPrefix(f.Pkg.Pkg.Path(), modulePath) {
					env2 := termEnv{}
					for i, p := range f.Params {
						if i < len(call.Common().Args) {
							if t, ok := s.termOf(call.Common().Args[i], env); ok {
								env2[p] = t
							} else {
								s.bindValue(p, call.Common().Args[i])
							}
						}
					}
					var res *Term
					for _, ret := range Returns(f) {
						if x.Index >= len(ret.Results) {
							return Term{}, false
						}
						rv := ret.Results[x.Index]
						if k, ok := constString(rv); ok && k == "" {
							continue // error paths
						}
						t, ok := s.termOf(rv, env2)
						if !ok || (res != nil && *res != t) {
							return Term{}, false
						}
						res = &t
					}
					if res != nil {
						return *res, true
					}
				}
			}
			return Term{}, false
		case *ssa.Call:
			if c := x.Common(); !c.IsInvoke() {
				if f, ok := c.Value.(*ssa.Function); ok && (fnName(f) == "strings.ToLower" || fnName(f) == "bytes.ToLower") && len(c.Args) == 1 {
					t, ok := s.termOf(c.Args[0], env)
					if t.Strip != nil || t.Upper {
						return Term{}, false
					}
					t.Lower = true
					return t, ok
				}
				if f, ok := c.Value.(*ssa.Function); ok && (fnName(f) == "strings.ToUpper" || fnName(f) == "bytes.ToUpper") && len(c.Args) == 1 {
					t, ok := s.termOf(c.Args[0], env)
					if t.Strip != nil || t.Lower || t.Unesc {
						return Term{}, false
					}
					t.Upper = true
					return t, ok
				}
				if f, ok := c.Value.(*ssa.Function); ok && fnName(f) == "html.UnescapeString" && len(c.Args) == 1 {
					t, ok := s.termOf(c.Args[0], env)
					if !ok || t.Lower || t.Strip != nil || t.Unesc {
						return Term{}, false
					}
					t.Unesc = true
					return t, true
				}
				if f, ok := c.Value.(*ssa.Function); ok && fnName(f) == pkgUtil+".Stringify" && len(c.Args) == 1 {
					// Stringify(args...) of the variadic parameter: the stringified input is the term
					if t, ok := env[c.Args[0]]; ok {
						return t, true
					}
				}
				if f, ok := c.Value.(*ssa.Function); ok && fnName(f) == "(*regexp.Regexp).ReplaceAllString" && len(c.Args) == 3 {
					rc := s.regexOf(c.Args[0])
					t, ok := s.termOf(c.Args[1], env)
					repl, okr := constString(c.Args[2])
					if rc == nil || !ok || !okr || repl != "" || t.Lower || t.Strip2 != nil {
						return Term{}, false
					}
					if t.Strip == nil {
						t.Strip = rc
					} else {
						t.Strip2 = rc
					}
					return t, true
				}
				// a single-result string helper of the repository all of whose returns yield the same term of its arguments
				if f, ok := c.Value.(*ssa.Function); ok && f.Blocks != nil && f.Pkg != nil && strings.HasPrefix(f.Pkg.Pkg.Path(), modulePath) &&
					f.Signature.Results().Len() == 1 && isStringish(f.Signature.Results().At(0).Type()) && s.depth < 20 {
					env2 := termEnv{}
					for i, p := range f.Params {
						if i < len(c.Args) {
							if t, ok := s.termOf(c.Args[i], env); ok {
								env2[p] = t
							} else {
								s.bindValue(p, c.Args[i])
							}
						}
					}
					var res *Term
					s.depth++
					for _, ret := range Returns(f) {
						t, ok := s.termOf(ret.Results[0], env2)
						if !ok || (res != nil && *res != t) {
							s.depth--
							return Term{}, false
						}
						res = &t
					}
					s.depth--
					if res != nil {
						return *res, true
					}
				}
			}
			return Term{}, false
		default:
			return Term{}, false
		}
	}
	return Term{}, false
}

func isStringish(t types.Type) bool {
	b, ok := t.Underlying().(*types.Basic)
	return ok && b.Info()&types.IsString != 0
}

func constOf(v ssa.Value) (constant.Value, bool) {
	v = boundElem(v)
	c, ok := v.(*ssa.Const)
	if !ok {
		return nil, false
	}
	return c.Value, true
}

func constString(v ssa.Value) (string, bool) {
	v = boundElem(v)
	// a parameterless helper of the repository that returns one and the same constant on every path
	if call, ok := v.(*ssa.Call); ok && len(call.Common().Args) == 0 && !call.Common().IsInvoke() {
		if g, ok := call.Common().Value.(*ssa.Function); ok && g.Blocks != nil && g.Pkg != nil && strings.HasPrefix(g.Pkg.Pkg.Path(), modulePath) && g.Signature.Results().Len() == 1 && len(g.Blocks) <= 8 {
			res, have := "", false
			for _, ret := range Returns(g) {
				if _, isCall := ret.Results[0].(*ssa.Call); isCall {
					return "", false
				}
				k, ok := constString(ret.Results[0])
				if !ok || (have && k != res) {
					return "", false
				}
				res, have = k, true
			}
			if have {
				return res, true
			}
		}
		return "", false
	}
	// a package-level string variable that only its package initialiser stores to, with a constant value
	if u, ok := v.(*ssa.UnOp); ok && u.Op == token.MUL {
		if g, ok := u.X.(*ssa.Global); ok && (isStringish(u.Type()) || isByteSlice(u.Type())) {
			if k, ok := globalStringConst(g); ok {
				return k, true
			}
			return "", false
		}
	}
	// string([]rune{c1, c2, …}) built in place from constants
	if cv, ok := v.(*ssa.Convert); ok && isStringish(cv.Type()) {
		if _, isSlice := cv.X.Type().Underlying().(*types.Slice); isSlice {
			elems, ok := variadicArgs(cv.X)
			if !ok {
				return "", false
			}
			var rs []rune
			for _, e := range elems {
				k, ok := constInt(e)
				if !ok {
					return "", false
				}
				rs = append(rs, rune(k))
			}
			return string(rs), true
		}
		if b, ok := cv.X.Type().Underlying().(*types.Basic); ok && b.Info()&types.IsInteger != 0 {
			if k, ok := constInt(cv.X); ok {
				return string(rune(k)), true
			}
			return "", false
		}
	}
	// a constant, possibly converted
	for {
		switch x := v.(type) {
		case *ssa.Convert:
			v = x.X
			continue
		case *ssa.ChangeType:
			v = x.X
			continue
		}
		break
	}
	c, ok := v.(*ssa.Const)
	if !ok || c.Value == nil {
		if ok && isStringish(c.Type()) {
			return "", true
		}
		return "", false
	}
	switch c.Value.Kind() {
	case constant.String:
		return constant.StringVal(c.Value), true
	case constant.Int:
		// rune constant converted to string is not handled here
	}
	return "", false
}

func constInt(v ssa.Value) (int64, bool) {
	v = boundElem(v)
	for {
		if x, ok := v.(*ssa.Convert); ok {
			v = x.X
			continue
		}
		break
	}
	c, ok := v.(*ssa.Const)
	if !ok || c.Value == nil || c.Value.Kind() != constant.Int {
		return 0, false
	}
	return constant.Int64Val(c.Value)
}

// regexOf resolves the receiver of a regexp method call to a known constant pattern: a package-level variable
// that is assigned once (by its initialiser, an init function or a lazily run closure) the result of
// regexp.MustCompile/Compile of a constant, possibly held in a field of a package-level struct, handed to the
// current function as an argument or returned by an accessor function.
func (s *Summarizer) regexOf(v ssa.Value) *RegexConst {
	return s.resolveRegex(v, 0)
}

// resolveValue follows the bindings of helper parameters to the values of their callers.
func (s *Summarizer) resolveValue(v ssa.Value) ssa.Value {
	v = boundElem(v)
	for i := 0; i < 6; i++ {
		w, ok := s.ValueParams[v]
		if !ok {
			return v
		}
		v = w
	}
	return v
}

func (s *Summarizer) ssaConstString(v ssa.Value, depth int) (string, bool) {
	v = s.resolveValue(v)
	if k, ok := constString(v); ok {
		return k, true
	}
	if bo, ok := v.(*ssa.BinOp); ok && bo.Op == token.ADD && depth < 8 {
		x, ok1 := s.ssaConstString(bo.X, depth+1)
		y, ok2 := s.ssaConstString(bo.Y, depth+1)
		if ok1 && ok2 {
			return x + y, true
		}
	}
	return "", false
}

// singleStoreTo: the one store to addr-like locations selected by match, anywhere in the program's sources.
func (s *Summarizer) singleStoreWhere(match func(addr ssa.Value) bool) *ssa.Store {
	var only *ssa.Store
	n := 0
	for _, f := range s.prog.SrcFuncs() {
		for _, b := range f.Blocks {
			for _, in := range b.Instrs {
				if st, ok := in.(*ssa.Store); ok && match(st.Addr) {
					n++
					only = st
				}
			}
		}
	}
	if n != 1 {
		return nil
	}
	return only
}

func (s *Summarizer) resolveRegex(v ssa.Value, depth int) *RegexConst {
	if depth > 6 || v == nil {
		return nil
	}
	if rc, ok := s.RegexParams[v]; ok {
		return rc
	}
	v = s.resolveValue(v)
	if rc, ok := s.RegexParams[v]; ok {
		return rc
	}
	switch x := v.(type) {
	case *ssa.Extract:
		if x.Index == 0 {
			return s.resolveRegex(x.Tuple, depth+1)
		}
	case *ssa.Call:
		g := staticCallee(x.Common())
		if g == nil {
			return nil
		}
		switch fnName(g) {
		case "regexp.MustCompile", "regexp.Compile":
			if src, ok := s.ssaConstString(x.Common().Args[0], 0); ok {
				return &RegexConst{Name: "regexp@" + s.prog.Pos(x.Pos()), Src: src, Pos: x.Pos()}
			}
			return nil
		}
		// an accessor of the repository: every return is the same pattern
		if g.Blocks != nil && g.Pkg != nil && strings.HasPrefix(g.Pkg.Pkg.Path(), modulePath) && len(g.Params) == 0 && g.Signature.Results().Len() == 1 {
			var res *RegexConst
			for _, ret := range Returns(g) {
				rc := s.resolveRegex(ret.Results[0], depth+1)
				if rc == nil || (res != nil && res.Src != rc.Src) {
					return nil
				}
				res = rc
			}
			return res
		}
	case *ssa.Field:
		// a field of a struct value loaded from a package-level variable
		base := s.resolveValue(x.X)
		if u, ok := base.(*ssa.UnOp); ok && u.Op == token.MUL {
			if g, ok := u.X.(*ssa.Global); ok {
				return s.regexInGlobalField(g, x.Field, depth)
			}
		}
		if g, ok := s.structRoot(base); ok {
			return s.regexInGlobalField(g, x.Field, depth)
		}
	case *ssa.UnOp:
		if x.Op != token.MUL {
			return nil
		}
		switch a := x.X.(type) {
		case *ssa.Global:
			if rc, ok := s.regexCache[a]; ok {
				return rc
			}
			if s.regexCache == nil {
				s.regexCache = map[*ssa.Global]*RegexConst{}
			}
			s.regexCache[a] = nil
			st := s.singleStoreWhere(func(addr ssa.Value) bool { return addr == ssa.Value(a) })
			if st == nil {
				return nil
			}
			rc := s.regexes[a.Pkg.Pkg.Name()+"."+a.Name()]
			if rc == nil {
				if rc2 := s.resolveRegex(st.Val, depth+1); rc2 != nil {
					rc = &RegexConst{Pkg: a.Pkg.Pkg.Path(), Name: a.Name(), Src: rc2.Src, Pos: rc2.Pos}
				}
			}
			s.regexCache[a] = rc
			return rc
		case *ssa.FieldAddr:
			base := s.resolveValue(a.X)
			if g, ok := base.(*ssa.Global); ok {
				return s.regexInGlobalField(g, a.Field, depth)
			}
			if g, ok := s.structRoot(base); ok {
				return s.regexInGlobalField(g, a.Field, depth)
			}
			// the local copy of a struct parameter (value receiver) that stands for a package-level struct
			if al, ok := base.(*ssa.Alloc); ok {
				if st := singleStoreLoose(al); st != nil {
					if u, ok := s.resolveValue(st.Val).(*ssa.UnOp); ok && u.Op == token.MUL {
						if g, ok := u.X.(*ssa.Global); ok {
							return s.regexInGlobalField(g, a.Field, depth)
						}
					}
				}
			}
		}
	}
	return nil
}

// regexInGlobalField: the pattern held in field #i of a package-level struct variable (or of the struct a
// package-level pointer variable is initialised with), written once.
func (s *Summarizer) regexInGlobalField(g *ssa.Global, field int, depth int) *RegexConst {
	// one constant per field (terms that strip by the same pattern must be the same term)
	key := regexFieldKey{g, field}
	if rc, ok := s.regexFieldCache[key]; ok {
		return rc
	}
	rc := s.regexInGlobalField1(g, field, depth)
	if s.regexFieldCache == nil {
		s.regexFieldCache = map[regexFieldKey]*RegexConst{}
	}
	s.regexFieldCache[key] = rc
	return rc
}

type regexFieldKey struct {
	g     *ssa.Global
	field int
}

func (s *Summarizer) regexInGlobalField1(g *ssa.Global, field int, depth int) *RegexConst {
	st := s.singleStoreWhere(func(addr ssa.Value) bool {
		fa, ok := addr.(*ssa.FieldAddr)
		return ok && fa.X == ssa.Value(g) && fa.Field == field
	})
	if st == nil {
		// the whole struct stored at once
		whole := s.singleStoreWhere(func(addr ssa.Value) bool { return addr == ssa.Value(g) })
		if whole == nil {
			return nil
		}
		structVal := whole.Val
		// a constructor of the repository: the struct literal it returns, with its parameters bound
		if call, ok := structVal.(*ssa.Call); ok {
			if h := staticCallee(call.Common()); h != nil && h.Blocks != nil && h.Pkg != nil && strings.HasPrefix(h.Pkg.Pkg.Path(), modulePath) && len(Returns(h)) == 1 {
				for i, prm := range h.Params {
					if i < len(call.Common().Args) {
						s.bindValue(prm, call.Common().Args[i])
					}
				}
				structVal = Returns(h)[0].Results[0]
			}
		}
		if u, ok := structVal.(*ssa.UnOp); ok {
			if al, ok := u.X.(*ssa.Alloc); ok {
				for _, ref := range *al.Referrers() {
					if fa, ok := ref.(*ssa.FieldAddr); ok && fa.Field == field {
						for _, r2 := range *fa.Referrers() {
							if s2, ok := r2.(*ssa.Store); ok && s2.Addr == ssa.Value(fa) {
								if rc := s.resolveRegex(s2.Val, depth+1); rc != nil {
									return &RegexConst{Pkg: g.Pkg.Pkg.Path(), Name: g.Name() + "." + globalFieldName(g, field), Src: rc.Src, Pos: rc.Pos}
								}
							}
						}
					}
				}
			}
		}
		return nil
	}
	if rc := s.resolveRegex(st.Val, depth+1); rc != nil {
		return &RegexConst{Pkg: g.Pkg.Pkg.Path(), Name: g.Name() + "." + globalFieldName(g, field), Src: rc.Src, Pos: rc.Pos}
	}
	return nil
}

// globalFieldName: the name of field #i of the struct a package-level variable holds (or points to).
func globalFieldName(g *ssa.Global, field int) string {
	t := g.Type().(*types.Pointer).Elem()
	if pt, ok := t.Underlying().(*types.Pointer); ok {
		t = pt.Elem()
	}
	if st, ok := t.Underlying().(*types.Struct); ok && field < st.NumFields() {
		return st.Field(field).Name()
	}
	return fmt.Sprint(field)
}

func staticCallee(c *ssa.CallCommon) *ssa.Function {
	if c.IsInvoke() {
		return nil
	}
	f, _ := c.Value.(*ssa.Function)
	if f == nil && (elemBind != nil || currentValueParams != nil) {
		// the current element of an unrolled loop over a constant collection of functions, or a function-valued
		// parameter bound at the call being summarised
		v := boundElem(c.Value)
		for i := 0; i < 6 && currentValueParams != nil; i++ {
			w, ok := currentValueParams[v]
			if !ok {
				break
			}
			v = boundElem(w)
		}
		for {
			if ct, ok := v.(*ssa.ChangeType); ok {
				v = ct.X
				continue
			}
			break
		}
		switch y := v.(type) {
		case *ssa.Function:
			return y
		case *ssa.MakeClosure:
			if len(y.Bindings) == 0 {
				f, _ = y.Fn.(*ssa.Function)
			}
		}
	}
	return f
}

// submatchOf recognises a value that is the result of
// P.FindStringSubmatch(term).
func (s *Summarizer) submatchOf(v ssa.Value, env termEnv) (*RegexConst, Term, bool) {
	call, ok := v.(*ssa.Call)
	if !ok {
		return nil, Term{}, false
	}
	f := staticCallee(call.Common())
	if f != nil && fnName(f) != "(*regexp.Regexp).FindStringSubmatch" && f.Blocks != nil && f.Pkg != nil && strings.HasPrefix(f.Pkg.Pkg.Path(), modulePath) && s.depth < 12 {
		// a helper of the repository that hands on the submatches of one pattern on one of its arguments
		rets := Returns(f)
		if len(rets) == 1 && len(rets[0].Results) == 1 {
			if _, env2, ok := s.repoCallee(call, env); ok {
				s.depth++
				rc, t, ok := s.submatchOf(rets[0].Results[0], env2)
				s.depth--
				return rc, t, ok
			}
		}
		return nil, Term{}, false
	}
	if f == nil || fnName(f) != "(*regexp.Regexp).FindStringSubmatch" {
		return nil, Term{}, false
	}
	rc := s.regexOf(call.Common().Args[0])
	t, ok := s.termOf(call.Common().Args[1], env)
	if rc == nil || !ok {
		return nil, Term{}, false
	}
	return rc, t, true
}

func atom(a *LAtom) *Form { return &Form{Op: "atom", Atom: a} }

// setMemberForm: lk is set[term] with set a package-level map[string]bool (directly, or a parameter bound to one at
// the call being summarised) whose literal is its only assignment.
func (s *Summarizer) setMemberForm(lk *ssa.Lookup, env termEnv) *Form {
	if b, ok := lk.Type().Underlying().(*types.Basic); !ok || b.Kind() != types.Bool {
		return nil
	}
	m := s.resolveValue(lk.X)
	for i := 0; i < 3; i++ {
		if ct, ok := m.(*ssa.ChangeType); ok {
			m = s.resolveValue(ct.X)
			continue
		}
		break
	}
	u, ok := m.(*ssa.UnOp)
	if !ok || u.Op != token.MUL {
		return nil
	}
	g, ok := u.X.(*ssa.Global)
	if !ok || g.Pkg == nil || !strings.HasPrefix(g.Pkg.Pkg.Path(), modulePath) {
		return nil
	}
	t, ok := s.termOf(lk.Index, env)
	if !ok {
		return nil
	}
	if len(storesToGlobal(s.prog, g)) > 0 {
		return nil
	}
	lit, err := s.prog.VarLit(relOf(g.Pkg.Pkg.Path()), cname(g))
	if err != nil {
		return nil
	}
	set, err := lit.StringBoolSet()
	if err != nil {
		return nil
	}
	var alts []*Form
	for _, w := range sortedKeys(set) {
		alts = append(alts, atom(&LAtom{Kind: "eq", Str: w, Term: t, Desc: fmt.Sprintf("%s==%q", termStr(t), w)}))
	}
	if len(alts) == 0 {
		return fFalse()
	}
	return fOr(alts...)
}

// ValueForm converts a boolean SSA value.
func (s *Summarizer) ValueForm(v ssa.Value, env termEnv) *Form {
	f := s.valueForm(v, env)
	if f.Op == "unknown" && f.In == nil {
		if in, ok := v.(ssa.Instruction); ok {
			f.In = in.Parent()
		}
	}
	return f
}

func (s *Summarizer) valueForm(v ssa.Value, env termEnv) *Form {
	s.depth++
	defer func() { s.depth-- }()
	if s.depth > 30 {
		return fUnknown("depth")
	}
	if _, isPrm := v.(*ssa.Parameter); isPrm || elemBind != nil {
		v = s.resolveValue(v)
	}
	switch x := v.(type) {
	case *ssa.Const:
		if x.Value != nil && x.Value.Kind() == constant.Bool {
			if constant.BoolVal(x.Value) {
				return fTrue()
			}
			return fFalse()
		}
	case *ssa.UnOp:
		if x.Op == token.NOT {
			return fNot(s.ValueForm(x.X, env))
		}
	case *ssa.Phi:
		return s.phiForm(x, env)
	case *ssa.Lookup:
		// set[term] for a package-level set of strings (map[string]bool literal that nothing else assigns): the term
		// is one of the words of the set
		if !x.CommaOk {
			if f := s.setMemberForm(x, env); f != nil {
				return f
			}
		}
	case *ssa.BinOp:
		return s.binopForm(x, env)
	case *ssa.Call:
		return s.callForm(x, env)
	case *ssa.Extract:
		// boolean result #i of a repository helper with several results: over its returns
		if call, ok := x.Tuple.(*ssa.Call); ok {
			if f, env2, ok := s.repoCallee(call, env); ok {
				var alts []*Form
				for _, ret := range Returns(f) {
					if x.Index >= len(ret.Results) {
						return fUnknown("result arity")
					}
					alts = append(alts, fAnd(s.blockCond(ret.Block(), env2, fnName(f)+" return"), s.ValueForm(ret.Results[x.Index], env2)))
				}
				return fOr(alts...)
			}
		}
	}
	return fUnknown(fmt.Sprintf("unrecognised boolean value %s", s.pv.Of(v)))
}

func (s *Summarizer) callForm(call *ssa.Call, env termEnv) *Form {
	c := call.Common()
	f := staticCallee(c)
	if f == nil {
		return fUnknown("dynamic call " + call.String())
	}
	name := fnName(f)
	switch name {
	case "(*regexp.Regexp).MatchString":
		rc := s.regexOf(c.Args[0])
		t, ok := s.termOf(c.Args[1], env)
		if rc == nil || !ok {
			return fUnknown("MatchString on unresolved pattern or term")
		}
		return atom(&LAtom{Kind: "search", Regex: rc, Term: t, Desc: fmt.Sprintf("Match(%s,%s)", rc.Name, termStr(t))})
	case "bytes.ContainsRune", "bytes.ContainsAny", "bytes.Contains", "bytes.HasPrefix", "bytes.HasSuffix":
		name = "strings." + strings.TrimPrefix(name, "bytes.")
		fallthrough
	case "strings.ContainsRune", "strings.ContainsAny", "strings.Contains", "strings.HasPrefix", "strings.HasSuffix":
		t, ok := s.termOf(c.Args[0], env)
		if !ok {
			return fUnknown(name + " on unresolved term")
		}
		switch name {
		case "strings.ContainsRune":
			r, ok := constInt(c.Args[1])
			if !ok {
				return fUnknown("ContainsRune with non-constant rune")
			}
			return atom(&LAtom{Kind: "containsAny", Set: relang.SetOfRunes(rune(r)), Term: t, Desc: fmt.Sprintf("ContainsRune(%s,%q)", termStr(t), rune(r))})
		case "strings.ContainsAny":
			k, ok := constString(c.Args[1])
			if !ok {
				return fUnknown("ContainsAny with non-constant set")
			}
			return atom(&LAtom{Kind: "containsAny", Set: relang.SetOfString(k), Term: t, Desc: fmt.Sprintf("ContainsAny(%s,%q)", termStr(t), k)})
		default:
			k, ok := constString(c.Args[1])
			if !ok {
				return fUnknown(name + " with non-constant argument")
			}
			kind := map[string]string{"strings.Contains": "contains", "strings.HasPrefix": "hasprefix", "strings.HasSuffix": "hassuffix"}[name]
			return atom(&LAtom{Kind: kind, Str: k, Term: t, Desc: fmt.Sprintf("%s(%s,%q)", strings.TrimPrefix(name, "strings."), termStr(t), k)})
		}
	}
	if name == "unicode/utf8.ValidString" && len(c.Args) == 1 {
		if t, ok := s.termOf(c.Args[0], env); ok {
			inv := relang.NewSet(relang.INV, relang.INV)
			return fNot(atom(&LAtom{Kind: "containsAny", Set: inv, Term: t, Desc: fmt.Sprintf("HasInvalidUTF8(%s)", termStr(t))}))
		}
	}
	if name == "strings.ContainsFunc" && len(c.Args) == 2 {
		t, ok := s.termOf(c.Args[0], env)
		set, okp := predicateSet(c.Args[1], true)
		if !ok || !okp {
			return fUnknown(name + " on an unresolved term or a predicate that is not a function of the rune alone")
		}
		return atom(&LAtom{Kind: "containsAny", Set: set, Term: t, Desc: fmt.Sprintf("ContainsFunc(%s,%s)", termStr(t), set)})
	}
	// pred(s[len(s)-1]) with a pure byte predicate of the repository
	if len(c.Args) == 1 && f.Blocks != nil && f.Pkg != nil && strings.HasPrefix(f.Pkg.Pkg.Path(), modulePath) {
		if t, ok := s.lastByteOf(c.Args[0], env); ok {
			if set, ok := predicateSet(f, false); ok {
				return atom(&LAtom{Kind: "tail", Set2: set, Term: t, Desc: fmt.Sprintf("last(%s)∈%s", termStr(t), set)})
			}
			return fUnknown("byte predicate " + name + " is not a function of the byte alone (or treats bytes ≥ 0x80 unevenly)")
		}
	}
	// pred(s[0]) with a pure byte predicate of the repository
	if len(c.Args) == 1 && f.Blocks != nil && f.Pkg != nil && strings.HasPrefix(f.Pkg.Pkg.Path(), modulePath) {
		if t, ok := s.firstByteOf(c.Args[0], env); ok {
			if set, ok := predicateSet(f, false); ok {
				return firstSymAtom(t, set)
			}
			return fUnknown("byte predicate " + name + " is not a function of the byte alone (or treats bytes ≥ 0x80 unevenly)")
		}
	}
	// repo-internal boolean helper: inline its summary
	if f.Pkg != nil && strings.HasPrefix(f.Pkg.Pkg.Path(), modulePath) && f.Blocks != nil && f.Signature.Results().Len() == 1 {
		env2 := termEnv{}
		for i, p := range f.Params {
			if i < len(c.Args) {
				if t, ok := s.termOf(c.Args[i], env); ok {
					env2[p] = t
				} else {
					s.bindValue(p, c.Args[i])
				}
			}
		}
		s.seedFieldTerms(f, c.Args, env, env2)
		nInexact := len(s.Inexact)
		ff := s.FuncForm(f, env2)
		if u, _ := ff.HasUnknown(); u && len(c.Args) >= 1 {
			// the helper is not a regular condition (a stack, counters, …): keep its verdict as a proposition about its
			// arguments, so that rules can still ask whether it is required to hold
			var ts []string
			allTerms := true
			for _, a := range c.Args {
				t, ok := s.termOf(a, env)
				if !ok {
					allTerms = false
					break
				}
				ts = append(ts, termStr(t))
			}
			if allTerms {
				s.Inexact = s.Inexact[:nInexact]
				if len(s.InexactIn) > nInexact {
					s.InexactIn = s.InexactIn[:nInexact]
				}
				pname := "call:" + name + "(" + strings.Join(ts, ",") + ")"
				if s.PropCalls == nil {
					s.PropCalls = map[string]propCall{}
				}
				var args []Term
				for _, a := range c.Args {
					t, _ := s.termOf(a, env)
					args = append(args, t)
				}
				s.PropCalls[pname] = propCall{Fn: f, Args: args}
				return atom(&LAtom{Kind: "prop", Str: pname, Term: Term{Param: -1}, Desc: pname})
			}
		}
		return ff
	}
	return fUnknown("call to " + name)
}

func termStr(t Term) string {
	s := fmt.Sprintf("p%d", t.Param)
	if t.Strip != nil {
		s = "strip(" + s + "," + t.Strip.Name + ")"
	}
	if t.Strip2 != nil {
		s = "strip(" + s + "," + t.Strip2.Name + ")"
	}
	if t.Unesc {
		s = "unescape(" + s + ")"
	}
	if t.Lower {
		s = "lower(" + s + ")"
	}
	if t.Upper {
		s = "upper(" + s + ")"
	}
	return s
}

// indexCmp recognises strings.Index*(term, const) compared with -1 / 0.
func (s *Summarizer) indexCmp(x *ssa.BinOp, env termEnv) *Form {
	return s.indexCmpParts(x.Op, x.X, x.Y, env, 0)
}

// indexCmpParts: the comparison "X op Y" where X is an index into a term (strings.Index*, or the integer result
// of a helper of the repository that returns such indices) and Y a constant.
func (s *Summarizer) indexCmpParts(op token.Token, X, Y ssa.Value, env termEnv, depth int) *Form {
	x := struct {
		Op   token.Token
		X, Y ssa.Value
	}{op, X, Y}
	call, ok := x.X.(*ssa.Call)
	if !ok {
		return nil
	}
	f := staticCallee(call.Common())
	if f == nil {
		return nil
	}
	name := fnName(f)
	var a *LAtom
	switch name {
	case "strings.IndexAny", "strings.Index", "strings.IndexByte", "strings.IndexRune", "strings.LastIndex", "strings.LastIndexAny", "strings.LastIndexByte", "strings.IndexFunc", "strings.LastIndexFunc":
	default:
		// an index computed by a helper: over its returns
		if _, isConst := constInt(Y); !isConst || depth > 2 || f.Blocks == nil || f.Pkg == nil || !strings.HasPrefix(f.Pkg.Pkg.Path(), modulePath) || f.Signature.Results().Len() != 1 {
			return nil
		}
		if b, ok := f.Signature.Results().At(0).Type().Underlying().(*types.Basic); !ok || b.Info()&types.IsInteger == 0 {
			return nil
		}
		if hasLoop(f) {
			return nil
		}
		g, env2, ok := s.repoCallee(call, env)
		if !ok {
			return nil
		}
		var alts []*Form
		for _, ret := range Returns(g) {
			rv := ret.Results[0]
			var vf *Form
			if k, isK := constInt(rv); isK {
				yk, _ := constInt(Y)
				res := false
				switch op {
				case token.EQL:
					res = k == yk
				case token.NEQ:
					res = k != yk
				case token.LSS:
					res = k < yk
				case token.LEQ:
					res = k <= yk
				case token.GTR:
					res = k > yk
				case token.GEQ:
					res = k >= yk
				default:
					return nil
				}
				if res {
					vf = fTrue()
				} else {
					vf = fFalse()
				}
			} else {
				vf = s.indexCmpParts(op, rv, Y, env2, depth+1)
				if vf == nil {
					return nil
				}
			}
			alts = append(alts, fAnd(s.blockCond(ret.Block(), env2, fnName(g)+" return"), vf))
		}
		if len(alts) == 0 {
			return nil
		}
		return fOr(alts...)
	}
	t, ok := s.termOf(call.Common().Args[0], env)
	if !ok {
		return fUnknown(name + " on unresolved term")
	}
	switch name {
	case "strings.IndexFunc", "strings.LastIndexFunc":
		set, ok := predicateSet(call.Common().Args[1], true)
		if !ok {
			return fUnknown(name + " with a predicate that is not a function of the rune alone")
		}
		a = &LAtom{Kind: "containsAny", Set: set, Term: t, Desc: fmt.Sprintf("ContainsFunc(%s,%s)", termStr(t), set)}
	case "strings.IndexAny", "strings.LastIndexAny":
		k, ok := constString(call.Common().Args[1])
		if !ok {
			return fUnknown(name + " with non-constant set")
		}
		a = &LAtom{Kind: "containsAny", Set: relang.SetOfString(k), Term: t, Desc: fmt.Sprintf("ContainsAny(%s,%q)", termStr(t), k)}
	case "strings.Index", "strings.LastIndex":
		k, ok := constString(call.Common().Args[1])
		if !ok {
			return fUnknown(name + " with non-constant substring")
		}
		a = &LAtom{Kind: "contains", Str: k, Term: t, Desc: fmt.Sprintf("Contains(%s,%q)", termStr(t), k)}
	default:
		k, ok := constInt(call.Common().Args[1])
		if !ok {
			return fUnknown(name + " with non-constant byte")
		}
		if name != "strings.IndexRune" && k >= 0x80 {
			return fUnknown(name + " with a non-ASCII byte")
		}
		a = &LAtom{Kind: "containsAny", Set: relang.SetOfRunes(rune(k)), Term: t, Desc: fmt.Sprintf("ContainsRune(%s,%q)", termStr(t), rune(k))}
	}
	k, ok := constInt(x.Y)
	if !ok {
		return fUnknown("index compared with non-constant")
	}
	switch {
	case x.Op == token.NEQ && k == -1, x.Op == token.GEQ && k == 0, x.Op == token.GTR && k == -1:
		return atom(a)
	case x.Op == token.EQL && k == -1, x.Op == token.LSS && k == 0, x.Op == token.LEQ && k == -1:
		return fNot(atom(a))
	}
	return fUnknown("index comparison " + x.Op.String())
}

func (s *Summarizer) binopForm(x *ssa.BinOp, env termEnv) *Form {
	// two integer constants (a mode parameter bound to the constant the caller passed, compared with a constant)
	if ka, ok := constInt(s.resolveValue(x.X)); ok {
		if kb, ok := constInt(s.resolveValue(x.Y)); ok {
			if _, isParam := x.X.(*ssa.Parameter); isParam || s.resolveValue(x.X) != x.X || s.resolveValue(x.Y) != x.Y {
				var v, known bool
				switch x.Op {
				case token.EQL:
					v, known = ka == kb, true
				case token.NEQ:
					v, known = ka != kb, true
				case token.LSS:
					v, known = ka < kb, true
				case token.LEQ:
					v, known = ka <= kb, true
				case token.GTR:
					v, known = ka > kb, true
				case token.GEQ:
					v, known = ka >= kb, true
				}
				if known {
					if v {
						return fTrue()
					}
					return fFalse()
				}
			}
		}
	}
	// verdict == K: integer result #i of a helper of the repository all of whose returns yield constants there
	if x.Op == token.EQL || x.Op == token.NEQ {
		for _, side := range [][2]ssa.Value{{x.X, x.Y}, {x.Y, x.X}} {
			kv, isK := constInt(side[1])
			if !isK || !isIntegerType(side[0].Type()) {
				continue
			}
			var call *ssa.Call
			idx := 0
			switch y := side[0].(type) {
			case *ssa.Extract:
				call, _ = y.Tuple.(*ssa.Call)
				idx = y.Index
			case *ssa.Call:
				call = y
			}
			if call == nil || s.depth > 12 {
				continue
			}
			g, env2, ok := s.repoCallee(call, env)
			if !ok || hasLoop(g) {
				continue
			}
			var alts []*Form
			okAll := true
			for _, ret := range Returns(g) {
				if idx >= len(ret.Results) {
					okAll = false
					break
				}
				k, isConst := constInt(ret.Results[idx])
				if !isConst {
					okAll = false
					break
				}
				if k == kv {
					alts = append(alts, s.blockCond(ret.Block(), env2, fnName(g)+" verdict"))
				}
			}
			if !okAll {
				continue
			}
			var f *Form
			switch len(alts) {
			case 0:
				f = fFalse()
			case 1:
				f = alts[0]
			default:
				f = fOr(alts...)
			}
			if x.Op == token.NEQ {
				return fNot(f)
			}
			return f
		}
	}
	if f := s.lastByteCmp(x, env); f != nil {
		return f
	}
	if f := s.intAltLenCmp(x, env); f != nil {
		return f
	}
	if f := s.firstByteCmp(x, env); f != nil {
		return f
	}
	if f := s.indexCmp(x, env); f != nil {
		return f
	}
	neg := false
	switch x.Op {
	case token.EQL:
	case token.NEQ:
		neg = true
	case token.GTR, token.LSS, token.GEQ, token.LEQ:
		// len(term) > 0 etc.
		if f := s.lenCmp(x, env); f != nil {
			return f
		}
		return fUnknown("comparison " + x.String())
	default:
		return fUnknown("binop " + x.Op.String())
	}
	wrap := func(f *Form) *Form {
		if neg {
			return fNot(f)
		}
		return f
	}
	for i := 0; i < 2; i++ {
		a, b := x.X, x.Y
		if i == 1 {
			a, b = b, a
		}
		// URLSanitized(t).String() == t  ⇔  the URL guard accepts t, or t is the innocuous URL itself
		if sc, ok := isCallTo(a, "("+modulePath+".URL).String"); ok {
			if uc, ok := isCallTo(sc.Common().Args[0], modulePath+".URLSanitized"); ok {
				t1, ok1 := s.termOf(uc.Common().Args[0], env)
				t2, ok2 := s.termOf(b, env)
				if ok1 && ok2 && t1 == t2 {
					if g := urlGuardFunc(s.prog); g != nil {
						env2 := termEnv{g.Params[0]: t1}
						return wrap(fOr(s.FuncForm(g, env2), atom(&LAtom{Kind: "eq", Str: specInnocuousURL, Term: t1, Desc: fmt.Sprintf("%s==%q", termStr(t1), specInnocuousURL)})))
					}
				}
				return fUnknown("URLSanitized round-trip comparison on unresolved terms")
			}
		}
		// bool == const
		if cv, ok := constOf(b); ok && cv != nil && cv.Kind() == constant.Bool {
			f := s.ValueForm(a, env)
			if !constant.BoolVal(cv) {
				f = fNot(f)
			}
			return wrap(f)
		}
		// f(args) == nil where f is a repository function returning an error
		// (directly, or result #k of a multi-result function)
		if c, ok := b.(*ssa.Const); ok && c.Value == nil {
			var call *ssa.Call
			idx := 0
			if cl, ok := a.(*ssa.Call); ok {
				call = cl
			} else if ex, ok := a.(*ssa.Extract); ok {
				if cl, ok := ex.Tuple.(*ssa.Call); ok {
					call, idx = cl, ex.Index
				}
			}
			if call != nil {
				if f := staticCallee(call.Common()); f != nil && f.Blocks != nil && f.Pkg != nil && strings.HasPrefix(f.Pkg.Pkg.Path(), modulePath) && isErrorType(a.Type()) {
					env2 := termEnv{}
					for i, p := range f.Params {
						if i < len(call.Common().Args) {
							if t, ok := s.termOf(call.Common().Args[i], env); ok {
								env2[p] = t
							} else {
								s.bindValue(p, call.Common().Args[i])
							}
						}
					}
					s.seedFieldTerms(f, call.Common().Args, env, env2)
					return wrap(s.NilResultForm(f, idx, env2))
				}
			}
		}
		// phi of error values == nil: per incoming edge, the value is the nil constant or a freshly made error
		if c, ok := b.(*ssa.Const); ok && c.Value == nil {
			if ph, ok := a.(*ssa.Phi); ok && isErrorType(ph.Type()) {
				d := ph.Block()
				var alts []*Form
				okAll := true
				over := false
				for i, p := range d.Preds {
					e := ph.Edges[i]
					k, isConst := e.(*ssa.Const)
					isNilEdge := isConst && k.Value == nil
					if !isNilEdge {
						// only freshly made errors may come in on the other edges
						ev := e
						if mi, ok := ev.(*ssa.MakeInterface); ok {
							ev = mi.X
						}
						if _, ok := isCallTo(ev, "fmt.Errorf"); !ok {
							okAll = false
							break
						}
						continue
					}
					cond := s.blockCond(p, env, "phi edge")
					if iff, ok := p.Instrs[len(p.Instrs)-1].(*ssa.If); ok && p.Succs[0] != p.Succs[1] {
						ec := s.ValueForm(iff.Cond, env)
						if u, why := ec.HasUnknown(); u {
							if !isNilEdge {
								continue // a non-nil edge contributes nothing to "== nil"
							}
							// the nil edge under a condition that cannot be modelled: drop the conjunct (over-approximation)
							over = true
							s.Inexact = append(s.Inexact, "nil edge of an error phi: condition dropped ("+why+")")
							s.InexactIn = append(s.InexactIn, ec.UnknownIn())
							s.noteDropped(iff.Cond, p.Succs[0] == d, env)
						} else {
							if p.Succs[1] == d {
								ec = fNot(ec)
							}
							cond = fAnd(cond, ec)
						}
					}
					if isNilEdge {
						alts = append(alts, cond) // nil on this edge
						continue
					}
					if mi, ok := e.(*ssa.MakeInterface); ok {
						e = mi.X
					}
					if _, ok := isCallTo(e, "fmt.Errorf"); ok {
						continue // non-nil on this edge
					}
					okAll = false
					break
				}
				if okAll {
					if over {
						return wrap(fOver(fOr(alts...)))
					}
					return wrap(fOr(alts...))
				}
			}
		}
		// localVar == nil (an error variable kept in memory): propositional atom
		if c, ok := b.(*ssa.Const); ok && c.Value == nil {
			if u, ok := a.(*ssa.UnOp); ok && u.Op == token.MUL {
				if al, ok := u.X.(*ssa.Alloc); ok {
					return wrap(atom(&LAtom{Kind: "prop", Str: "nil(" + al.Comment + ")", Term: Term{Param: -1}, Desc: "nil(" + al.Comment + ")"}))
				}
				if fv, ok := u.X.(*ssa.FreeVar); ok {
					return wrap(atom(&LAtom{Kind: "prop", Str: "nil(" + fv.Name() + ")", Term: Term{Param: -1}, Desc: "nil(" + fv.Name() + ")"}))
				}
				// a field of a local struct (the state a bound method shares with this function)
				if fa, ok := u.X.(*ssa.FieldAddr); ok {
					if al, ok := fa.X.(*ssa.Alloc); ok {
						n := "nil(" + al.Comment + "." + fieldName(fa.X.Type(), fa.Field) + ")"
						return wrap(atom(&LAtom{Kind: "prop", Str: n, Term: Term{Param: -1}, Desc: n}))
					}
				}
			}
		}
		// P.FindString(term) == "" / P.FindStringIndex(term) == nil: "no match", provided P cannot match the empty string
		if cl, ok := a.(*ssa.Call); ok {
			if g := staticCallee(cl.Common()); g != nil {
				gn := fnName(g)
				isEmptyCmp := false
				if k, ok := constString(b); ok && k == "" && gn == "(*regexp.Regexp).FindString" {
					isEmptyCmp = true
				}
				if c, ok := b.(*ssa.Const); ok && c.Value == nil && (gn == "(*regexp.Regexp).FindStringIndex" || gn == "(*regexp.Regexp).FindStringSubmatchIndex") {
					isEmptyCmp = true
				}
				if isEmptyCmp {
					rc := s.regexOf(cl.Common().Args[0])
					t, okT := s.termOf(cl.Common().Args[1], env)
					if rc == nil || !okT {
						return fUnknown(gn + " on unresolved pattern or term")
					}
					if gn == "(*regexp.Regexp).FindString" {
						if re, err := regexp.Compile(rc.Src); err != nil || re.MatchString("") {
							return fUnknown("FindString compared with \"\" for a pattern that can match the empty string")
						}
					}
					return wrap(fNot(atom(&LAtom{Kind: "search", Regex: rc, Term: t, Desc: fmt.Sprintf("Match(%s,%s)", rc.Name, termStr(t))})))
				}
			}
		}
		// submatches == nil
		if c, ok := b.(*ssa.Const); ok && c.Value == nil {
			if rc, t, ok := s.submatchOf(a, env); ok {
				return wrap(fNot(atom(&LAtom{Kind: "search", Regex: rc, Term: t, Desc: fmt.Sprintf("Match(%s,%s)", rc.Name, termStr(t))})))
			}
		}
		// len(submatches) == k   /   len(term) == 0
		if k, ok := constInt(b); ok {
			if call, ok := a.(*ssa.Call); ok {
				if bi, ok := call.Common().Value.(*ssa.Builtin); ok && bi.Name() == "len" {
					arg := call.Common().Args[0]
					if rc, t, ok := s.submatchOf(arg, env); ok {
						ng, err := numGroups(rc.Src)
						if err != nil {
							return fUnknown("bad pattern")
						}
						m := atom(&LAtom{Kind: "search", Regex: rc, Term: t, Desc: fmt.Sprintf("Match(%s,%s)", rc.Name, termStr(t))})
						switch {
						case k == 0:
							return wrap(fNot(m))
						case k == int64(ng)+1:
							return wrap(m)
						default:
							return wrap(fFalse())
						}
					}
					if t, ok := s.termOf(arg, env); ok && k == 0 {
						return wrap(atom(&LAtom{Kind: "empty", Term: t, Desc: fmt.Sprintf("%s==\"\"", termStr(t))}))
					}
				}
			}
		}
		// result #i of a repository helper == "K": over the helper's returns
		if k, ok := constString(b); ok {
			var call *ssa.Call
			idx := 0
			if cl, ok := a.(*ssa.Call); ok {
				call = cl
			} else if ex, ok := a.(*ssa.Extract); ok {
				if cl, ok := ex.Tuple.(*ssa.Call); ok {
					call, idx = cl, ex.Index
				}
			}
			if call != nil {
				if _, okTerm := s.termOf(a, env); !okTerm {
					if f, env2, ok := s.repoCallee(call, env); ok && s.depth < 20 {
						var alts []*Form
						bad := false
						for _, ret := range Returns(f) {
							if idx >= len(ret.Results) || !isStringish(ret.Results[idx].Type()) {
								bad = true
								break
							}
							eq := s.strEqConst(ret.Results[idx], k, env2)
							alts = append(alts, fAnd(s.blockCond(ret.Block(), env2, fnName(f)+" return"), eq))
						}
						if !bad {
							return wrap(fOr(alts...))
						}
					}
				}
			}
		}
		// submatches[i] == "K"   /   term == "K"
		if k, ok := constString(b); ok {
			if u, ok := a.(*ssa.UnOp); ok && u.Op == token.MUL {
				if ia, ok := u.X.(*ssa.IndexAddr); ok {
					if gi, ok := constInt(ia.Index); ok {
						if rc, t, ok := s.submatchOf(ia.X, env); ok {
							return wrap(atom(&LAtom{Kind: "capeq", Regex: rc, Group: int(gi), K: k, Term: t,
								Desc: fmt.Sprintf("Cap%d(%s,%s)==%q", gi, rc.Name, termStr(t), k)}))
						}
					}
				}
			}
			if t, ok := s.termOf(a, env); ok {
				if k == "" {
					return wrap(atom(&LAtom{Kind: "empty", Term: t, Desc: fmt.Sprintf("%s==\"\"", termStr(t))}))
				}
				return wrap(atom(&LAtom{Kind: "eq", Str: k, Term: t, Desc: fmt.Sprintf("%s==%q", termStr(t), k)}))
			}
		}
	}
	return fUnknown("comparison " + s.pv.Of(x).String())
}

func (s *Summarizer) lenCmp(x *ssa.BinOp, env termEnv) *Form {
	// len(term) > 0, len(term) >= 1, 0 < len(term) ...
	isLen := func(v ssa.Value) (Term, bool) {
		if call, ok := v.(*ssa.Call); ok {
			if bi, ok := call.Common().Value.(*ssa.Builtin); ok && bi.Name() == "len" {
				return s.termOf(call.Common().Args[0], env)
			}
		}
		return Term{}, false
	}
	nonEmpty := func(t Term) *Form {
		return fNot(atom(&LAtom{Kind: "empty", Term: t, Desc: fmt.Sprintf("%s==\"\"", termStr(t))}))
	}
	if t, ok := isLen(x.X); ok {
		if k, ok := constInt(x.Y); ok {
			switch {
			case x.Op == token.GTR && k == 0, x.Op == token.GEQ && k == 1:
				return nonEmpty(t)
			case x.Op == token.LSS && k == 1, x.Op == token.LEQ && k == 0:
				return fNot(nonEmpty(t))
			case x.Op == token.GEQ && k == 2, x.Op == token.GTR && k == 1:
				return atom(&LAtom{Kind: "minlen2", Term: t, Desc: fmt.Sprintf("len(%s)>=2", termStr(t))})
			case x.Op == token.LSS && k == 2, x.Op == token.LEQ && k == 1:
				return fNot(atom(&LAtom{Kind: "minlen2", Term: t, Desc: fmt.Sprintf("len(%s)>=2", termStr(t))}))
			}
		}
	}
	if t, ok := isLen(x.Y); ok {
		if k, ok := constInt(x.X); ok {
			switch {
			case x.Op == token.LSS && k == 0, x.Op == token.LEQ && k == 1:
				return nonEmpty(t)
			}
		}
	}
	return nil
}

// blockCond is a necessary condition for reaching b. In loop-free functions it
// is the full path condition (the disjunction over all paths of the branch
// conditions taken, computed by forward merging); otherwise the conjunction of
// the dominating guards of b.
func (s *Summarizer) blockCond(b *ssa.BasicBlock, env termEnv, what string) *Form {
	loops, canonical := s.scanLoopsOf(b.Parent(), env)
	inLoop := func(x *ssa.BasicBlock) *scanLoop {
		for _, l := range loops {
			if l.Blocks[x] {
				return l
			}
		}
		return nil
	}
	enums := s.enumLoops[b.Parent()]
	inEnum := func(x *ssa.BasicBlock) *enumLoop {
		for _, l := range enums {
			if l.Blocks[x] {
				return l
			}
		}
		return nil
	}
	if canonical && inLoop(b) == nil && inEnum(b) == nil {
		memo := map[*ssa.BasicBlock]*Form{}
		var cond func(x *ssa.BasicBlock) *Form
		// edge: condition of reaching x through its predecessor p (p not inside a loop)
		edge := func(p, x *ssa.BasicBlock) *Form {
			if callsNoReturn(p) {
				return fFalse() // the block ends in a call that never returns (a helper that always panics)
			}
			c := cond(p)
			if vf := s.validatorCalls(p, env); vf != nil {
				c = fAnd(c, vf)
			}
			if iff, ok := p.Instrs[len(p.Instrs)-1].(*ssa.If); ok && p.Succs[0] != p.Succs[1] {
				ec := s.ValueForm(iff.Cond, env)
				if u, why := ec.HasUnknown(); u {
					s.Inexact = append(s.Inexact, fmt.Sprintf("%s: branch condition dropped (%s)", what, why))
					s.InexactIn = append(s.InexactIn, ec.UnknownIn())
					s.noteDropped(iff.Cond, p.Succs[0] == x, env)
				} else {
					if p.Succs[1] == x {
						ec = fNot(ec)
					}
					c = fAnd(c, ec)
				}
			}
			return c
		}
		entry := func(l *scanLoop) *Form {
			var alts []*Form
			for _, q := range l.Header.Preds {
				if !l.Blocks[q] {
					alts = append(alts, edge(q, l.Header))
				}
			}
			if len(alts) == 1 {
				return alts[0]
			}
			return fOr(alts...)
		}
		cond = func(x *ssa.BasicBlock) *Form {
			if f, ok := memo[x]; ok {
				return f
			}
			if len(x.Preds) == 0 {
				memo[x] = fTrue()
				return memo[x]
			}
			var alts []*Form
			for _, p := range x.Preds {
				if l := inLoop(p); l != nil {
					// the loop is left along p→x: summarised as a condition on the scanned string
					t, _ := s.termOf(l.Str, env)
					alts = append(alts, fAnd(entry(l), atom(l.edgeAtom(t, p, x))))
					continue
				}
				if el := inEnum(p); el != nil {
					// a loop over a constant collection, left along p→x: unrolled
					var ent []*Form
					for _, q := range el.Header.Preds {
						if !el.Blocks[q] {
							ent = append(ent, edge(q, el.Header))
						}
					}
					alts = append(alts, s.enumExit(el, p, x, fOr(ent...), env, what))
					continue
				}
				alts = append(alts, edge(p, x))
			}
			var f *Form
			if len(alts) == 1 {
				f = alts[0]
			} else {
				f = fOr(alts...)
			}
			memo[x] = f
			return f
		}
		res := cond(b)
		// the validators called in b itself: b's content reaches the caller only if they all return
		if vf := s.validatorCalls(b, env); vf != nil {
			res = fAnd(res, vf)
		}
		return res
	}
	var fs []*Form
	for _, g := range GuardsOf(b) {
		f := s.ValueForm(g.Cond, env)
		if u, why := f.HasUnknown(); u {
			// a dropped conjunct only weakens the condition
			s.Inexact = append(s.Inexact, fmt.Sprintf("%s: guard dropped (%s)", what, why))
			s.InexactIn = append(s.InexactIn, f.UnknownIn())
			s.noteDropped(g.Cond, g.Pol, env)
			continue
		}
		if !g.Pol {
			f = fNot(f)
		}
		fs = append(fs, f)
	}
	if len(fs) == 0 {
		return fTrue()
	}
	return fAnd(fs...)
}

// enumExit: the condition of leaving the unrolled loop el along the edge p→x, given the condition of entering it.
func (s *Summarizer) enumExit(el *enumLoop, p, x *ssa.BasicBlock, entry *Form, env termEnv, what string) *Form {
	var res []*Form
	prefix := entry
	for k := range el.Elems {
		undo := el.bind(k)
		memo := map[*ssa.BasicBlock]*Form{}
		var cond func(b *ssa.BasicBlock) *Form
		edge := func(q, b *ssa.BasicBlock) *Form {
			if callsNoReturn(q) {
				return fFalse()
			}
			c := cond(q)
			if q == el.Header {
				return c
			}
			if iff, ok := q.Instrs[len(q.Instrs)-1].(*ssa.If); ok && q.Succs[0] != q.Succs[1] {
				ec := s.ValueForm(iff.Cond, env)
				if u, why := ec.HasUnknown(); u {
					if os.Getenv("ENUM_DEBUG") != "" {
						fmt.Println("enumExit: dropped", why)
					}
					s.Inexact = append(s.Inexact, fmt.Sprintf("%s: branch condition dropped in an unrolled loop (%s)", what, why))
					s.InexactIn = append(s.InexactIn, ec.UnknownIn())
					s.noteDropped(iff.Cond, q.Succs[0] == b, env)
				} else {
					if q.Succs[1] == b {
						ec = fNot(ec)
					}
					c = fAnd(c, ec)
				}
			}
			return c
		}
		cond = func(b *ssa.BasicBlock) *Form {
			if f, ok := memo[b]; ok {
				return f
			}
			if b == el.Header {
				return fTrue()
			}
			memo[b] = fFalse() // cycles cannot occur (no nested loops); guard anyway
			var alts []*Form
			for _, q := range b.Preds {
				if el.Blocks[q] {
					alts = append(alts, edge(q, b))
				}
			}
			f := fOr(alts...)
			if len(alts) == 1 {
				f = alts[0]
			}
			memo[b] = f
			return f
		}
		if p != el.Header {
			res = append(res, fAnd(prefix, edge(p, x)))
		}
		// going round again: the back edges
		var back []*Form
		for _, q := range el.Header.Preds {
			if el.Blocks[q] {
				back = append(back, edge(q, el.Header))
			}
		}
		prefix = fAnd(prefix, fOr(back...))
		undo()
	}
	if p == el.Header {
		return prefix
	}
	return fOr(res...)
}

func loopHeaders(fn *ssa.Function) []*ssa.BasicBlock {
	seen := map[*ssa.BasicBlock]bool{}
	var out []*ssa.BasicBlock
	for _, b := range fn.Blocks {
		for _, su := range b.Succs {
			if su.Dominates(b) && !seen[su] {
				seen[su] = true
				out = append(out, su)
			}
		}
	}
	return out
}

func (s *Summarizer) phiForm(phi *ssa.Phi, env termEnv) *Form {
	// a loop-carried flag: its value depends on itself
	if s.phiActive[phi] {
		return fUnknown("loop-carried value " + phi.Name())
	}
	if s.phiActive == nil {
		s.phiActive = map[*ssa.Phi]bool{}
	}
	s.phiActive[phi] = true
	defer delete(s.phiActive, phi)
	d := phi.Block()
	var alts, conds []*Form
	for i, p := range d.Preds {
		cond := s.blockCond(p, env, "phi edge")
		// edge condition if p branches to d
		if iff, ok := p.Instrs[len(p.Instrs)-1].(*ssa.If); ok && p.Succs[0] != p.Succs[1] {
			ec := s.ValueForm(iff.Cond, env)
			if u, why := ec.HasUnknown(); u {
				s.Inexact = append(s.Inexact, "phi edge condition dropped: "+why)
				s.InexactIn = append(s.InexactIn, ec.UnknownIn())
			} else {
				if p.Succs[1] == d {
					ec = fNot(ec)
				}
				cond = fAnd(cond, ec)
			}
		}
		conds = append(conds, cond)
		alts = append(alts, fAnd(cond, s.ValueForm(phi.Edges[i], env)))
	}
	s.exitGroups = append(s.exitGroups, conds)
	return fOr(alts...)
}

// FuncForm summarises a bool-returning function: the set of inputs on which it
// returns true.
func (s *Summarizer) FuncForm(f *ssa.Function, env termEnv) *Form {
	var alts, conds []*Form
	for _, b := range f.Blocks {
		if len(b.Instrs) == 0 {
			continue
		}
		switch last := b.Instrs[len(b.Instrs)-1].(type) {
		case *ssa.Return:
			cond := s.blockCond(b, env, fnName(f)+" return")
			conds = append(conds, cond)
			alts = append(alts, fAnd(cond, s.ValueForm(last.Results[0], env)))
		case *ssa.Panic:
			conds = append(conds, s.blockCond(b, env, fnName(f)+" panic"))
		}
	}
	s.exitGroups = append(s.exitGroups, conds)
	if _, canonical := s.scanLoopsOf(f, env); !canonical {
		s.Inexact = append(s.Inexact, fnName(f)+" contains a loop")
		s.InexactIn = append(s.InexactIn, f)
	}
	return fOr(alts...)
}

// urlGuardFunc finds the boolean function whose result decides whether
// URLSanitized keeps its input (the function C11 summarises).
func urlGuardFunc(p *Program) *ssa.Function {
	fn := p.Func("", "URLSanitized")
	if fn == nil {
		return nil
	}
	for _, b := range fn.Blocks {
		if iff, ok := b.Instrs[len(b.Instrs)-1].(*ssa.If); ok {
			if c, ok := iff.Cond.(*ssa.Call); ok {
				if f := staticCallee(c.Common()); f != nil && f.Pkg == fn.Pkg && len(c.Common().Args) == 1 {
					// the argument is the input, possibly converted to a string type of the package's own
					a := c.Common().Args[0]
					for {
						if ct, ok := a.(*ssa.ChangeType); ok && isStringish(ct.X.Type()) {
							a = ct.X
							continue
						}
						if cv, ok := a.(*ssa.Convert); ok && isStringish(cv.X.Type()) && isStringish(cv.Type()) {
							a = cv.X
							continue
						}
						break
					}
					if a == ssa.Value(fn.Params[0]) {
						return f
					}
				}
			}
		}
	}
	return nil
}

func isErrorType(t types.Type) bool {
	n, ok := t.(*types.Named)
	return ok && n.Obj().Pkg() == nil && n.Obj().Name() == "error"
}

// NilResultForm over-approximates the inputs on which result #idx (an error)
// of f is nil: the disjunction, over the returns whose result may be nil, of
// their path conditions.
func (s *Summarizer) NilResultForm(f *ssa.Function, idx int, env termEnv) *Form {
	s.depth++
	defer func() { s.depth-- }()
	if s.depth > 12 {
		return fOver(fTrue())
	}
	var alts []*Form
	for _, ret := range Returns(f) {
		v := ret.Results[idx]
		if c, ok := isCallTo(v, "fmt.Errorf"); ok && c != nil {
			continue // non-nil
		}
		if c, ok := isCallTo(v, "errors.New"); ok && c != nil {
			continue
		}
		if provenError(unIface(v)) || certainlyNonNil(v, ret.Block()) || nonNilInterface(v) {
			continue // a package-level error value, or returned where it was tested to be non-nil
		}
		// returned under "v != nil"
		nonNil := false
		for _, g := range GuardsOf(ret.Block()) {
			if bo, ok := g.Cond.(*ssa.BinOp); ok && bo.X == v {
				if k, ok := bo.Y.(*ssa.Const); ok && k.Value == nil && ((bo.Op == token.NEQ) == g.Pol) {
					nonNil = true
				}
			}
		}
		if nonNil {
			continue
		}
		// a result chosen by the path (err assigned on some branches): nil on the edges that bring nil
		if ph, ok := v.(*ssa.Phi); ok && ph.Block() == ret.Block() && !hasLoop(f) {
			if pf, ok := s.nilPhiForm(ph, env, fnName(f)+" nil-result return", 0); ok {
				alts = append(alts, pf)
				continue
			}
		}
		cond := s.blockCond(ret.Block(), env, fnName(f)+" nil-result return")
		// the error of a helper handed on: nil exactly when the helper's is
		if call, ok := unIface(v).(*ssa.Call); ok {
			if g, env2, ok := s.repoCallee(call, env); ok && g != f && g.Signature.Results().Len() == 1 && isErrorType(g.Signature.Results().At(0).Type()) {
				cond = fAnd(cond, s.NilResultForm(g, 0, env2))
			}
		}
		alts = append(alts, cond)
	}
	if len(alts) == 0 {
		return fOver(fFalse())
	}
	return fOver(fOr(alts...))
}

// edgeCond: the condition under which control passes from p to x (p's own condition and its branch).
func (s *Summarizer) edgeCond(p, x *ssa.BasicBlock, env termEnv, what string) *Form {
	c := s.blockCond(p, env, what)
	if iff, ok := p.Instrs[len(p.Instrs)-1].(*ssa.If); ok && p.Succs[0] != p.Succs[1] {
		ec := s.ValueForm(iff.Cond, env)
		if u, why := ec.HasUnknown(); u {
			s.Inexact = append(s.Inexact, fmt.Sprintf("%s: branch condition dropped (%s)", what, why))
			s.InexactIn = append(s.InexactIn, ec.UnknownIn())
			return c
		}
		if p.Succs[1] == x {
			ec = fNot(ec)
		}
		c = fAnd(c, ec)
	}
	return c
}

// nilPhiForm over-approximates the inputs on which the interface-valued phi is nil: the edges that bring the nil
// constant (or another such phi, or a value that is not known to be non-nil), each under its edge condition.
func (s *Summarizer) nilPhiForm(ph *ssa.Phi, env termEnv, what string, depth int) (*Form, bool) {
	if depth > 4 {
		return nil, false
	}
	var alts []*Form
	for i, e := range ph.Edges {
		p := ph.Block().Preds[i]
		if k, ok := e.(*ssa.Const); ok && k.Value == nil {
			alts = append(alts, s.edgeCond(p, ph.Block(), env, what))
			continue
		}
		if provenError(unIface(e)) || nonNilInterface(e) {
			continue
		}
		if _, ok := isCallTo(e, "fmt.Errorf"); ok {
			continue
		}
		if _, ok := isCallTo(e, "errors.New"); ok {
			continue
		}
		if inner, ok := e.(*ssa.Phi); ok {
			f, ok := s.nilPhiForm(inner, env, what, depth+1)
			if !ok {
				return nil, false
			}
			alts = append(alts, fAnd(f, s.edgeCond(p, ph.Block(), env, what)))
			continue
		}
		// anything else may be nil
		alts = append(alts, s.edgeCond(p, ph.Block(), env, what))
	}
	if len(alts) == 0 {
		return fFalse(), true
	}
	return fOr(alts...), true
}

// nonNilInterface: v is an interface value made from a concrete value (&T{...}, a struct, even a nil pointer): the
// interface itself is never nil.
func nonNilInterface(v ssa.Value) bool {
	_, ok := v.(*ssa.MakeInterface)
	return ok
}

func hasLoop(f *ssa.Function) bool {
	for _, b := range f.Blocks {
		for _, su := range b.Succs {
			if su.Dominates(b) {
				return true
			}
		}
	}
	return false
}

func numGroups(src string) (int, error) {
	r, err := relang.Parse(src)
	if err != nil {
		return 0, err
	}
	return r.NumGroups, nil
}

// ---- evaluation ---------------------------------------------------------------

// Lang is an alphabet under construction plus the regexes registered for it.
type Lang struct {
	b     *relang.Builder
	A     *relang.Alphabet
	regs  []*relang.Regex
	lower bool
	upper bool
	cache map[string]*relang.DFA
	// Overapprox is set when some literal was evaluated by an
	// over-approximating construction (strip terms).
	Overapprox bool
	// Props assigns truth values to propositional atoms (Kind "prop").
	Props map[string]bool
}

func NewLang() *Lang { return &Lang{b: relang.NewBuilder(), cache: map[string]*relang.DFA{}} }

func lowerMap(s int32) int32 {
	if s == relang.INV {
		return unicode.ReplacementChar
	}
	return int32(unicode.ToLower(rune(s)))
}

func upperMap(s int32) int32 {
	if s == relang.INV {
		return unicode.ReplacementChar
	}
	return int32(unicode.ToUpper(rune(s)))
}

func (l *Lang) NeedLower() { l.lower = true }
func (l *Lang) NeedUpper() { l.upper = true }

func (l *Lang) AddSet(s *relang.Set) { l.b.AddSet(s) }

func (l *Lang) Re(src string) (*relang.Regex, error) {
	r, err := relang.Parse(src)
	if err != nil {
		return nil, err
	}
	l.add(r)
	return r, nil
}

func (l *Lang) MustRe(src string) *relang.Regex {
	r, err := l.Re(src)
	if err != nil {
		panic(fmt.Sprintf("spec pattern %q: %v", src, err))
	}
	return r
}

func (l *Lang) ReCap(src string, cs *relang.CaptureSpec) (*relang.Regex, error) {
	if err := relang.CaptureOK(src, cs.Group); err != nil {
		return nil, err
	}
	r, err := relang.ParseCapture(src, cs)
	if err != nil {
		return nil, err
	}
	l.add(r)
	return r, nil
}

func (l *Lang) add(r *relang.Regex) {
	if l.A != nil {
		panic("Lang: alphabet already built")
	}
	l.regs = append(l.regs, r)
	for _, s := range r.Sets() {
		l.b.AddSet(s)
	}
}

// AddString makes every rune of s a symbol class of its own.
func (l *Lang) AddString(s string) {
	seen := map[rune]bool{}
	for _, r := range s {
		if !seen[r] {
			seen[r] = true
			l.b.AddSet(relang.SetOfRunes(r))
		}
	}
}

func (l *Lang) Build() {
	if l.lower {
		l.b.AddMap(lowerMap)
	}
	if l.upper {
		l.b.AddMap(upperMap)
	}
	l.A = l.b.Build()
}

// Register declares everything a formula needs before the alphabet is built.
func (l *Lang) Register(f *Form) error {
	var err error
	f.Atoms(func(a *LAtom) {
		if a.Term.Lower {
			l.NeedLower()
		}
		if a.Term.Upper {
			l.NeedUpper()
		}
		for _, st := range []*RegexConst{a.Term.Strip, a.Term.Strip2} {
			if st != nil {
				if _, e := l.Re(st.Src); e != nil {
					err = e
				}
			}
		}
		switch a.Kind {
		case "search":
			if _, e := l.Re(a.Regex.Src); e != nil {
				err = e
			}
		case "capeq":
			for _, eq := range []bool{true, false} {
				if _, e := l.ReCap(a.Regex.Src, &relang.CaptureSpec{Group: a.Group, Const: a.K, Equal: eq}); e != nil {
					err = e
				}
			}
		case "containsAny":
			l.AddSet(a.Set)
		case "scan":
			l.AddSet(a.Set)
			l.AddSet(a.Set2)
			l.AddSet(relang.NewSet(0, 0x7F))
		case "tail", "minlen2":
			if a.Set != nil {
				l.AddSet(a.Set)
			}
			if a.Set2 != nil {
				l.AddSet(a.Set2)
			}
			l.AddSet(relang.NewSet(0, 0x7F))
			l.AddSet(relang.NewSet(relang.INV, relang.INV))
		case "contains", "hasprefix", "hassuffix", "eq":
			l.AddString(a.Str)
		}
	})
	return err
}

// AmbiguousCapture is reported by Eval when a capture comparison depends on
// regexp match priorities.
type evalResult struct {
	D         *relang.DFA
	Ambiguity []string
}

func (l *Lang) search(src string) *relang.DFA {
	k := "S:" + src
	if d, ok := l.cache[k]; ok {
		return d
	}
	r, _ := relang.Parse(src)
	d := r.Compile(l.A, relang.Search).Minimize()
	l.cache[k] = d
	return d
}

func (l *Lang) SearchRe(src string) *relang.DFA { return l.search(src) }

func (l *Lang) FullRe(src string) *relang.DFA {
	k := "F:" + src
	if d, ok := l.cache[k]; ok {
		return d
	}
	r, err := relang.Parse(src)
	if err != nil {
		panic(err)
	}
	d := r.Compile(l.A, relang.Full).Minimize()
	l.cache[k] = d
	return d
}

func (l *Lang) All() *relang.DFA { return relang.Complement(relang.EmptyLang(l.A)) }

func (l *Lang) quoteRe(s string) string {
	var b strings.Builder
	for _, r := range s {
		fmt.Fprintf(&b, `\x{%x}`, r)
	}
	return b.String()
}

// Eval turns a formula into a DFA. Ambiguous captures are reported.
func (l *Lang) Eval(f *Form) (*relang.DFA, []string, error) {
	var amb []string
	var atomLang func(a *LAtom) (*relang.DFA, error)
	atomLang = func(a *LAtom) (*relang.DFA, error) {
		var d *relang.DFA
		switch a.Kind {
		case "search":
			d = l.search(a.Regex.Src)
		case "capeq":
			req, err := relang.ParseCapture(a.Regex.Src, &relang.CaptureSpec{Group: a.Group, Const: a.K, Equal: true})
			if err != nil {
				return nil, err
			}
			rne, err := relang.ParseCapture(a.Regex.Src, &relang.CaptureSpec{Group: a.Group, Const: a.K, Equal: false})
			if err != nil {
				return nil, err
			}
			deq := req.Compile(l.A, relang.Search).Minimize()
			dne := rne.Compile(l.A, relang.Search).Minimize()
			if ok, w := relang.Disjoint(deq, dne); !ok {
				amb = append(amb, fmt.Sprintf("%s: group %d == %q depends on match priority, e.g. on %s", a.Regex.Name, a.Group, a.K, w))
			}
			d = deq
		case "containsAny":
			d = relang.ContainsSym(l.A, a.Set)
		case "scan":
			d = scanDFA(l.A, a.N, a.Set, a.Set2, a.End, false).Minimize()
		case "tail":
			// the last byte (Set2) and, if given, the byte before it (Set, ASCII only; the last byte is then a symbol
			// of its own: an ASCII character or an invalid byte)
			one := func(set *relang.Set) *relang.DFA {
				return relang.FromFunc(l.A, 3, 0, func(q int) bool { return q == 1 }, func(q int, sym int32) int {
					if q == 0 && set.Contains(sym) {
						return 1
					}
					return 2
				})
			}
			last := a.Set2
			if a.Set != nil {
				single := relang.NewSet(0, 0x7F).Union(relang.NewSet(relang.INV, relang.INV))
				if last == nil {
					last = single
				} else {
					last = last.Intersect(single)
				}
				d = relang.Concat(relang.Concat(l.All(), one(a.Set)), one(last)).Minimize()
			} else {
				d = relang.Concat(l.All(), one(last)).Minimize()
			}
		case "minlen2":
			// at least two bytes: two symbols or more, or one character that is encoded in several bytes
			any := relang.NewSet(0, relang.INV)
			one := func(set *relang.Set) *relang.DFA {
				return relang.FromFunc(l.A, 3, 0, func(q int) bool { return q == 1 }, func(q int, sym int32) int {
					if q == 0 && set.Contains(sym) {
						return 1
					}
					return 2
				})
			}
			d = relang.Union(relang.Concat(relang.Concat(one(any), one(any)), l.All()), one(relang.NewSet(0x80, relang.INV-1))).Minimize()
		case "contains":
			d = l.search(l.quoteRe(a.Str))
		case "hasprefix":
			d = l.search(`\A` + l.quoteRe(a.Str))
		case "hassuffix":
			d = l.search(l.quoteRe(a.Str) + `\z`)
		case "eq":
			d = relang.Literal(l.A, a.Str)
		case "empty":
			d = relang.Literal(l.A, "")
		case "prop":
			v, ok := l.Props[a.Str]
			if !ok {
				return nil, fmt.Errorf("propositional atom %s has no assignment", a.Str)
			}
			if v {
				d = l.All()
			} else {
				d = relang.EmptyLang(l.A)
			}
		default:
			return nil, fmt.Errorf("atom kind %s", a.Kind)
		}
		return d, nil
	}
	// lift applies the term's maps to a language over the term's value.
	lift := func(d *relang.DFA, t Term) (*relang.DFA, error) {
		// the removals are undone from the outside in: {x : strip2(strip1(x)) ∈ L} = lift1(lift2(L))
		if t.Strip2 != nil {
			l.Overapprox = true
			d = relang.LiftErase(d, l.FullRe(t.Strip2.Src)).Minimize()
		}
		if t.Strip != nil {
			// ∃-decomposition lift: over-approximates (see relang.LiftErase)
			l.Overapprox = true
			d = relang.LiftErase(d, l.FullRe(t.Strip.Src)).Minimize()
		}
		if t.Lower {
			var err error
			d, err = relang.InverseMap(d, lowerMap)
			if err != nil {
				return nil, err
			}
		}
		if t.Upper {
			var err error
			d, err = relang.InverseMap(d, upperMap)
			if err != nil {
				return nil, err
			}
		}
		return d, nil
	}
	// uniform: all atoms of f are about the same term
	uniform := func(f *Form) (Term, bool) {
		var t Term
		n := 0
		ok := true
		f.Atoms(func(a *LAtom) {
			if a.Kind == "prop" {
				return
			}
			if n == 0 {
				t = a.Term
			} else if a.Term != t {
				ok = false
			}
			n++
		})
		if u, _ := f.HasUnknown(); u {
			return t, false
		}
		return t, ok && n > 0
	}
	// plain evaluates a uniform formula over the term's value (no lifting)
	var plain func(f *Form, pos bool) (*relang.DFA, error)
	plain = func(f *Form, pos bool) (*relang.DFA, error) {
		switch f.Op {
		case "true", "false":
			if (f.Op == "true") == pos {
				return l.All(), nil
			}
			return relang.EmptyLang(l.A), nil
		case "not":
			return plain(f.Sub[0], !pos)
		case "over":
			if !pos {
				return l.All(), nil
			}
			return plain(f.Sub[0], true)
		case "over2":
			// a condition known only through a consequence of it and a consequence of its negation
			if !pos {
				return plain(f.Sub[1], true)
			}
			return plain(f.Sub[0], true)
		case "atom":
			if f.Atom.Kind == "prop" {
				if _, assigned := l.Props[f.Atom.Str]; !assigned {
					// an unassigned proposition (e.g. the verdict of a non-regular helper): either way is possible
					return l.All(), nil
				}
			}
			d, err := atomLang(f.Atom)
			if err != nil {
				return nil, err
			}
			if !pos {
				d = relang.Complement(d)
			}
			return d, nil
		case "and", "or":
			isAnd := (f.Op == "and") == pos
			var acc *relang.DFA
			for _, s := range f.Sub {
				d, err := plain(s, pos)
				if err != nil {
					return nil, err
				}
				if acc == nil {
					acc = d
				} else if isAnd {
					acc = relang.Intersect(acc, d).Minimize()
				} else {
					acc = relang.Union(acc, d).Minimize()
				}
			}
			if acc == nil {
				if isAnd {
					return l.All(), nil
				}
				return relang.EmptyLang(l.A), nil
			}
			return acc, nil
		}
		return nil, fmt.Errorf("bad formula op %s", f.Op)
	}
	var ev func(f *Form, pos bool) (*relang.DFA, error)
	ev = func(f *Form, pos bool) (*relang.DFA, error) {
		if t, ok := uniform(f); ok {
			// evaluate over the term's value, lift once (keeps the guards on one
			// stripped string correlated)
			d, err := plain(f, pos)
			if err != nil {
				return nil, err
			}
			return lift(d, t)
		}
		switch f.Op {
		case "true", "false":
			if (f.Op == "true") == pos {
				return l.All(), nil
			}
			return relang.EmptyLang(l.A), nil
		case "unknown":
			return nil, fmt.Errorf("unknown atom: %s", f.Why)
		case "atom":
			if f.Atom.Kind == "prop" {
				return plain(f, pos)
			}
			d, err := plain(f, pos)
			if err != nil {
				return nil, err
			}
			return lift(d, f.Atom.Term)
		case "not":
			return ev(f.Sub[0], !pos)
		case "over":
			if !pos {
				return l.All(), nil
			}
			return ev(f.Sub[0], true)
		case "over2":
			if !pos {
				return ev(f.Sub[1], true)
			}
			return ev(f.Sub[0], true)
		case "and", "or":
			isAnd := (f.Op == "and") == pos // De Morgan
			// group children that are uniform in the same term
			var groups []*Form
			byTerm := map[Term]*Form{}
			var flat []*Form
			var flatten func(x *Form)
			flatten = func(x *Form) {
				if x.Op == f.Op {
					for _, s := range x.Sub {
						flatten(s)
					}
					return
				}
				flat = append(flat, x)
			}
			flatten(f)
			for _, s := range flat {
				if t, ok := uniform(s); ok {
					if g := byTerm[t]; g != nil {
						g.Sub = append(g.Sub, s)
					} else {
						g = &Form{Op: f.Op, Sub: []*Form{s}}
						byTerm[t] = g
						groups = append(groups, g)
					}
				} else {
					groups = append(groups, s)
				}
			}
			var acc *relang.DFA
			for _, s := range groups {
				var d *relang.DFA
				var err error
				if t, ok := uniform(s); ok {
					d, err = plain(s, pos)
					if err == nil {
						d, err = lift(d, t)
					}
				} else {
					d, err = ev(s, pos)
				}
				if err != nil {
					return nil, err
				}
				if acc == nil {
					acc = d
				} else if isAnd {
					acc = relang.Intersect(acc, d).Minimize()
				} else {
					acc = relang.Union(acc, d).Minimize()
				}
			}
			if acc == nil {
				if isAnd {
					return l.All(), nil
				}
				return relang.EmptyLang(l.A), nil
			}
			return acc, nil
		}
		return nil, fmt.Errorf("bad formula op %s", f.Op)
	}
	d, err := ev(f, true)
	return d, amb, err
}

// CheckExact verifies that within every exit group the conditions are pairwise
// disjoint (then OR(cond ∧ value) is exactly the function's result).
func (l *Lang) CheckExact(s *Summarizer) []string {
	problems := append([]string{}, s.Inexact...)
	for _, grp := range s.exitGroups {
		var ds []*relang.DFA
		for _, c := range grp {
			d, _, err := l.Eval(c)
			if err != nil {
				problems = append(problems, "exit condition not evaluable: "+err.Error())
				ds = nil
				break
			}
			ds = append(ds, d)
		}
		for i := range ds {
			for j := i + 1; j < len(ds); j++ {
				if ok, w := relang.Disjoint(ds[i], ds[j]); !ok {
					problems = append(problems, fmt.Sprintf("exit conditions overlap (e.g. on %s): %s / %s", w, grp[i], grp[j]))
				}
			}
		}
	}
	return problems
}

// scanLoopsOf returns the scan loops of fn whose scanned string is a term under env;
// canonical reports that every loop of fn is one of them (so that path conditions can be
// computed over the loop-collapsed graph).
func (s *Summarizer) scanLoopsOf(fn *ssa.Function, env termEnv) ([]*scanLoop, bool) {
	if !hasLoop(fn) {
		return nil, true
	}
	if s.loopCache == nil {
		s.loopCache = map[*ssa.Function][]*scanLoop{}
		s.loopOK = map[*ssa.Function]bool{}
	}
	loops, done := s.loopCache[fn]
	ok := s.loopOK[fn]
	paramDep := false
	if !done {
		loops, ok = findScanLoops(s.prog, fn)
		if !ok {
			// loops over constant collections are unrolled
			loops, ok = nil, true
			delete(s.enumLoops, fn)
			if s.enumLoops == nil {
				s.enumLoops = map[*ssa.Function][]*enumLoop{}
			}
			for _, h := range loopHeaders(fn) {
				if l := scanLoopAt(s.prog, fn, h); l != nil {
					loops = append(loops, l)
				} else if el := enumLoopAt(s.prog, fn, h, s); el != nil {
					s.enumLoops[fn] = append(s.enumLoops[fn], el)
					if el.ParamDependent {
						paramDep = true
					}
				} else {
					ok = false
				}
			}
			if !ok {
				loops = nil
				delete(s.enumLoops, fn)
			}
		}
		if !paramDep {
			s.loopCache[fn], s.loopOK[fn] = loops, ok
		}
	}
	if !ok {
		return nil, false
	}
	for _, l := range loops {
		if _, okT := s.termOf(l.Str, env); !okT {
			return nil, false
		}
	}
	return loops, true
}

// firstByteOf: v is term[0] (byte index 0 of a string term).
func (s *Summarizer) firstByteOf(v ssa.Value, env termEnv) (Term, bool) {
	if c, ok := v.(*ssa.Convert); ok {
		v = c.X
	}
	var base, idx ssa.Value
	switch x := v.(type) {
	case *ssa.Index:
		base, idx = x.X, x.Index
	case *ssa.Lookup:
		base, idx = x.X, x.Index
	default:
		return Term{}, false
	}
	if k, ok := constInt(idx); !ok || k != 0 {
		return Term{}, false
	}
	if !isStringish(base.Type()) {
		return Term{}, false
	}
	return s.termOf(base, env)
}

// lastByteOf: v is term[len(term)-1].
func (s *Summarizer) lastByteOf(v ssa.Value, env termEnv) (Term, bool) {
	if c, ok := v.(*ssa.Convert); ok {
		v = c.X
	}
	var base, idx ssa.Value
	switch x := v.(type) {
	case *ssa.Index:
		base, idx = x.X, x.Index
	case *ssa.Lookup:
		base, idx = x.X, x.Index
	default:
		return Term{}, false
	}
	bo, ok := idx.(*ssa.BinOp)
	if !ok || bo.Op != token.SUB || !isStringish(base.Type()) {
		return Term{}, false
	}
	if sv, ok := isLenOf(bo.X); !ok || sv != base {
		return Term{}, false
	}
	if k, ok := constIntExpr(bo.Y); !ok || k != 1 {
		return Term{}, false
	}
	return s.termOf(base, env)
}

// firstSymAtom: "the string is non-empty and its first symbol is in set" (set over code points).
func firstSymAtom(t Term, set *relang.Set) *Form {
	return atom(&LAtom{Kind: "scan", Term: t, N: 0, Set: set, Set2: set.Complement(), End: false, Desc: fmt.Sprintf("first(%s)∈%s", termStr(t), set)})
}

// liftByteSet turns a set of byte values into a set of code points, provided the bytes
// ≥ 0x80 are all inside or all outside (then "byte 0 of the UTF-8 encoding is in the set"
// is a property of the first code point).
func liftByteSet(set *relang.Set) (*relang.Set, bool) {
	hi := relang.NewSet(0x80, 0xFF)
	in := set.Intersect(hi)
	out := set.Intersect(relang.NewSet(0, 0x7F))
	if in.Empty() {
		return out, true
	}
	if !hi.Minus(set).Empty() {
		return nil, false
	}
	return out.Union(relang.NewSet(0x80, relang.INV)), true
}

// firstByteCmp recognises term[0] <op> constant.
func (s *Summarizer) firstByteCmp(x *ssa.BinOp, env termEnv) *Form {
	t, ok := s.firstByteOf(x.X, env)
	varLeft := true
	other := x.Y
	if !ok {
		t, ok = s.firstByteOf(x.Y, env)
		varLeft = false
		other = x.X
	}
	if !ok {
		return nil
	}
	k, okk := constInt(other)
	if !okk {
		return fUnknown("first byte compared with a non-constant")
	}
	ts, _ := cmpSplit(x.Op, k, byteDomain(), varLeft)
	if ts == nil {
		return fUnknown("first byte comparison " + x.Op.String())
	}
	set, okl := liftByteSet(ts)
	if !okl {
		return fUnknown("first byte comparison splits the bytes ≥ 0x80")
	}
	return firstSymAtom(t, set)
}

// predicateSet evaluates a pure predicate function (a *ssa.Function value, or a closure
// without free variables) of one byte or rune: the set of code points it accepts.
func predicateSet(v ssa.Value, runeArg bool) (*relang.Set, bool) {
	var g *ssa.Function
	switch x := v.(type) {
	case *ssa.Function:
		g = x
	case *ssa.MakeClosure:
		if len(x.Bindings) == 0 {
			g, _ = x.Fn.(*ssa.Function)
		}
	case *ssa.ChangeType:
		return predicateSet(x.X, runeArg)
	}
	if g == nil || g.Blocks == nil || len(g.Params) != 1 || g.Signature.Results().Len() != 1 {
		return nil, false
	}
	b, ok := g.Params[0].Type().Underlying().(*types.Basic)
	if !ok {
		return nil, false
	}
	var dom *relang.Set
	switch b.Kind() {
	case types.Uint8:
		dom = byteDomain()
	case types.Int32:
		dom = runeDomain()
	default:
		return nil, false
	}
	leaves := decisionTable(g.Blocks[0], dtConfig{Var: g.Params[0], Dom: dom, Leaf: func(*ssa.BasicBlock) (string, bool) { return "", false }, Max: 2000})
	for _, l := range leaves {
		if (l.Effect != "return:true" && l.Effect != "return:false") || len(l.Tags) > 0 {
			return nil, false
		}
	}
	t := effectSet(leaves, "return:true", nil)
	if b.Kind() == types.Uint8 {
		return liftByteSet(t)
	}
	// rune predicates see U+FFFD for invalid bytes
	if t.Contains(0xFFFD) {
		t = t.Union(relang.NewSet(relang.INV, relang.INV))
	}
	return t, true
}

// noteDropped records a dropped branch condition that is a call of a repository helper.
func (s *Summarizer) noteDropped(cond ssa.Value, pol bool, env termEnv) {
	for {
		u, ok := cond.(*ssa.UnOp)
		if !ok || u.Op != token.NOT {
			break
		}
		cond, pol = u.X, !pol
	}
	call, ok := cond.(*ssa.Call)
	if !ok {
		return
	}
	f := staticCallee(call.Common())
	if f == nil || f.Pkg == nil || !strings.HasPrefix(f.Pkg.Pkg.Path(), modulePath) {
		return
	}
	var args []Term
	for _, a := range call.Common().Args {
		if t, ok := s.termOf(a, env); ok {
			args = append(args, t)
		}
	}
	s.Dropped = append(s.Dropped, droppedGuard{Fn: f, Args: args, Pol: pol})
}

// repoCallee: the static callee of a call if it is a function of the repository with a body, and the
// term environment of its parameters.
func (s *Summarizer) repoCallee(call *ssa.Call, env termEnv) (*ssa.Function, termEnv, bool) {
	f := staticCallee(call.Common())
	if f == nil || f.Blocks == nil || f.Pkg == nil || !strings.HasPrefix(f.Pkg.Pkg.Path(), modulePath) {
		return nil, nil, false
	}
	env2 := termEnv{}
	for i, p := range f.Params {
		if i < len(call.Common().Args) {
			if t, ok := s.termOf(call.Common().Args[i], env); ok {
				env2[p] = t
			} else {
				s.bindValue(p, call.Common().Args[i])
			}
		}
	}
	s.seedFieldTerms(f, call.Common().Args, env, env2)
	return f, env2, true
}

// localFieldStore: the one value stored to field #field of the local struct that v designates (a local variable,
// a literal, or a load of one).
func localFieldStore(v ssa.Value, field int, depth int) (ssa.Value, bool) {
	if depth > 4 {
		return nil, false
	}
	switch x := v.(type) {
	case *ssa.UnOp:
		if x.Op == token.MUL {
			return localFieldStore(x.X, field, depth+1)
		}
	case *ssa.MakeInterface:
		return localFieldStore(x.X, field, depth+1)
	case *ssa.Alloc:
		var val ssa.Value
		n := 0
		for _, ref := range *x.Referrers() {
			switch y := ref.(type) {
			case *ssa.FieldAddr:
				if y.Field != field {
					continue
				}
				for _, r2 := range *y.Referrers() {
					if st, ok := r2.(*ssa.Store); ok && st.Addr == ssa.Value(y) {
						val = st.Val
						n++
					}
				}
			case *ssa.Store:
				if y.Addr == ssa.Value(x) && !selfStore(y) {
					if c, ok := y.Val.(*ssa.Const); !ok || c.Value != nil {
						if n == 0 {
							return localFieldStore(y.Val, field, depth+1)
						}
						return nil, false
					}
				}
			}
		}
		if n == 1 {
			return val, true
		}
	}
	return nil, false
}

// seedFieldTerms: in callee f, reads of string fields of a struct parameter that the caller filled with terms
// are those terms.
func (s *Summarizer) seedFieldTerms(f *ssa.Function, args []ssa.Value, env, env2 termEnv) {
	for i, prm := range f.Params {
		if i >= len(args) {
			continue
		}
		t := prm.Type()
		if pt, ok := t.Underlying().(*types.Pointer); ok {
			t = pt.Elem()
		}
		if _, isStruct := t.Underlying().(*types.Struct); !isStruct {
			continue
		}
		// the parameter, and the local copy of a struct parameter
		bases := map[ssa.Value]bool{prm: true}
		for _, ref := range *prm.Referrers() {
			if st, ok := ref.(*ssa.Store); ok && st.Val == ssa.Value(prm) {
				bases[st.Addr] = true
			}
		}
		for _, b := range f.Blocks {
			for _, in := range b.Instrs {
				v, ok := in.(ssa.Value)
				if !ok || !isStringish(v.Type()) {
					continue
				}
				var base ssa.Value
				field := -1
				switch x := in.(type) {
				case *ssa.Field:
					base, field = x.X, x.Field
				case *ssa.UnOp:
					if fa, ok := x.X.(*ssa.FieldAddr); ok && x.Op == token.MUL {
						base, field = fa.X, fa.Field
					}
				}
				if field < 0 || !bases[base] {
					continue
				}
				tm, ok := s.fieldTermOfArg(args[i], field, env, 0)
				if os.Getenv("FIELD_DEBUG") != "" {
					fmt.Fprintf(os.Stderr, "S.seedFieldTerms %s in %s arg %T %s: %v %v\n", v, f.Name(), args[i], args[i], tm, ok)
				}
				if ok {
					env2[v] = tm
				}
			}
		}
	}
}

// fieldTermOfArg: the term that field #field of the struct argument arg holds: stored by the caller into a local
// struct, or by the repository helper that built the struct (all of its returns agreeing).
func (s *Summarizer) fieldTermOfArg(arg ssa.Value, field int, env termEnv, depth int) (Term, bool) {
	if val, ok := localFieldStore(arg, field, 0); ok {
		return s.termOf(val, env)
	}
	if depth > 3 {
		return Term{}, false
	}
	for i := 0; i < 6; i++ {
		switch x := arg.(type) {
		case *ssa.UnOp:
			if al, ok := x.X.(*ssa.Alloc); ok && x.Op == token.MUL {
				if st := singleStoreLoose(al); st != nil && onlyFieldReads(al) {
					arg = st.Val
					continue
				}
			}
		case *ssa.Alloc:
			if st := singleStoreLoose(x); st != nil && onlyFieldReads(x) {
				arg = st.Val
				continue
			}
		}
		break
	}
	ridx := 0
	if ex, isEx := arg.(*ssa.Extract); isEx {
		arg, ridx = ex.Tuple, ex.Index
	}
	call, ok := arg.(*ssa.Call)
	if !ok {
		return Term{}, false
	}
	g := staticCallee(call.Common())
	if g == nil || g.Blocks == nil || g.Pkg == nil || !strings.HasPrefix(g.Pkg.Pkg.Path(), modulePath) || ridx >= g.Signature.Results().Len() {
		return Term{}, false
	}
	envG := termEnv{}
	for i, p := range g.Params {
		if i < len(call.Common().Args) {
			if t, ok := s.termOf(call.Common().Args[i], env); ok {
				envG[p] = t
			}
		}
	}
	var res *Term
	for _, ret := range Returns(g) {
		t, ok := s.fieldTermOfArg(ret.Results[ridx], field, envG, depth+1)
		if !ok || (res != nil && *res != t) {
			return Term{}, false
		}
		res = &t
	}
	if res == nil {
		return Term{}, false
	}
	return *res, true
}

// bindValue records (for the rest of the analysis: parameters belong to one function, and a helper called with
// different patterns from different places is bound again at each summary) what a helper parameter stands for.
func (s *Summarizer) bindValue(prm *ssa.Parameter, arg ssa.Value) {
	if s.ValueParams == nil {
		s.ValueParams = map[ssa.Value]ssa.Value{}
	}
	s.ValueParams[prm] = s.resolveValue(arg)
	currentValueParams = s.ValueParams
}

// currentValueParams: the value bindings of the summariser at work (consulted where no summariser is at hand:
// the resolution of calls through function-valued parameters).
var currentValueParams map[ssa.Value]ssa.Value

// strEqConst: the condition "v == k" for a string value v (a constant, a submatch element, a term).
func (s *Summarizer) strEqConst(v ssa.Value, k string, env termEnv) *Form {
	if c, ok := constString(v); ok {
		if c == k {
			return fTrue()
		}
		return fFalse()
	}
	if u, ok := v.(*ssa.UnOp); ok && u.Op == token.MUL {
		if ia, ok := u.X.(*ssa.IndexAddr); ok {
			if gi, ok := constInt(ia.Index); ok {
				if rc, t, ok := s.submatchOf(ia.X, env); ok {
					return atom(&LAtom{Kind: "capeq", Regex: rc, Group: int(gi), K: k, Term: t,
						Desc: fmt.Sprintf("Cap%d(%s,%s)==%q", gi, rc.Name, termStr(t), k)})
				}
			}
		}
	}
	if t, ok := s.termOf(v, env); ok {
		if k == "" {
			return atom(&LAtom{Kind: "empty", Term: t, Desc: fmt.Sprintf("%s==\"\"", termStr(t))})
		}
		return atom(&LAtom{Kind: "eq", Str: k, Term: t, Desc: fmt.Sprintf("%s==%q", termStr(t), k)})
	}
	return fUnknown("string comparison " + s.pv.Of(v).String())
}

var globalStringCache = map[*ssa.Global]*string{}

// globalStringConst: the value of a package-level string variable that is written exactly once, by its
// package's initialiser, with a constant (or a constant rune-slice conversion).
func globalStringConst(g *ssa.Global) (string, bool) {
	if v, ok := globalStringCache[g]; ok {
		if v == nil {
			return "", false
		}
		return *v, true
	}
	globalStringCache[g] = nil
	if curProgram == nil || g.Pkg == nil {
		return "", false
	}
	var only *ssa.Store
	n := 0
	visit := func(f *ssa.Function) {
		if f == nil {
			return
		}
		for _, b := range f.Blocks {
			for _, in := range b.Instrs {
				if st, ok := in.(*ssa.Store); ok && st.Addr == ssa.Value(g) {
					n++
					only = st
				}
			}
		}
	}
	initFn := g.Pkg.Func("init")
	for _, f := range curProgram.SrcFuncs() {
		if f != initFn {
			visit(f)
		}
	}
	visit(initFn)
	if n != 1 || only.Parent() != g.Pkg.Func("init") {
		return "", false
	}
	k, ok := constString(only.Val)
	if !ok {
		return "", false
	}
	globalStringCache[g] = &k
	return k, true
}

// lastByteCmp recognises term[len(term)-1] ==/!= ASCII constant.
func (s *Summarizer) lastByteCmp(x *ssa.BinOp, env termEnv) *Form {
	if x.Op != token.EQL && x.Op != token.NEQ {
		return nil
	}
	v, other := x.X, x.Y
	if _, isK := v.(*ssa.Const); isK {
		v, other = other, v
	}
	if c, ok := v.(*ssa.Convert); ok {
		v = c.X
	}
	var base, idx ssa.Value
	switch y := v.(type) {
	case *ssa.Index:
		base, idx = y.X, y.Index
	case *ssa.Lookup:
		base, idx = y.X, y.Index
	default:
		return nil
	}
	bo, ok := idx.(*ssa.BinOp)
	if !ok || bo.Op != token.SUB {
		return nil
	}
	if sv, ok := isLenOf(bo.X); !ok || sv != base {
		return nil
	}
	back, ok := constIntExpr(bo.Y)
	if !ok || (back != 1 && back != 2) {
		return nil
	}
	if !isStringish(base.Type()) {
		return nil
	}
	t, ok := s.termOf(base, env)
	if !ok {
		return nil
	}
	k, okk := constInt(other)
	if !okk || k < 0 || k >= 0x80 {
		return nil
	}
	f := atom(&LAtom{Kind: "hassuffix", Str: string(rune(k)), Term: t, Desc: fmt.Sprintf("HasSuffix(%s,%q)", termStr(t), string(rune(k)))})
	if back == 2 {
		f = atom(&LAtom{Kind: "tail", Set: relang.SetOfRunes(rune(k)), Term: t, Desc: fmt.Sprintf("byte[len-2](%s)==%q", termStr(t), rune(k))})
	}
	if x.Op == token.NEQ {
		return fNot(f)
	}
	return f
}

// intConstAlts: the constants an integer value can be (constants and phis of constants).
func intConstAlts(v ssa.Value, depth int) ([]int64, bool) {
	if k, ok := constIntExpr(v); ok {
		return []int64{k}, true
	}
	if ph, ok := v.(*ssa.Phi); ok && depth < 3 {
		var out []int64
		for _, e := range ph.Edges {
			ks, ok := intConstAlts(e, depth+1)
			if !ok {
				return nil, false
			}
			out = append(out, ks...)
		}
		return out, true
	}
	return nil, false
}

// intAltLenCmp: c < len(term) (and the other orders) where c is one of finitely many constants:
// known only through consequences — true implies len > min(c), false implies len <= max(c).
func (s *Summarizer) intAltLenCmp(x *ssa.BinOp, env termEnv) *Form {
	op := x.Op
	a, b := x.X, x.Y
	// normalise to  a < len  /  a <= len
	switch op {
	case token.GTR: // len > a
		a, b, op = b, a, token.LSS
	case token.GEQ:
		a, b, op = b, a, token.LEQ
	case token.LSS, token.LEQ:
	default:
		return nil
	}
	sv, ok := isLenOf(b)
	if !ok || !isStringish(sv.Type()) {
		return nil
	}
	if _, isConst := constIntExpr(a); isConst {
		return nil // lenCmp handles constants exactly
	}
	ks, ok := intConstAlts(a, 0)
	if !ok || len(ks) == 0 {
		return nil
	}
	t, ok := s.termOf(sv, env)
	if !ok {
		return nil
	}
	min, max := ks[0], ks[0]
	for _, k := range ks {
		if k < min {
			min = k
		}
		if k > max {
			max = k
		}
	}
	if op == token.LEQ { // a <= len  ≡  a-1 < len
		min, max = min-1, max-1
	}
	// true: len > min (bytes) ⇒ non-empty when min >= 0
	pos := fTrue()
	if min >= 0 {
		pos = fNot(atom(&LAtom{Kind: "empty", Term: t, Desc: fmt.Sprintf("%s==\"\"", termStr(t))}))
	}
	// false: len <= max bytes ⇒ at most max symbols
	neg := fTrue()
	if max >= 0 && max < 64 {
		rc := &RegexConst{Name: fmt.Sprintf("longer-than-%d", max), Src: fmt.Sprintf(`^[\s\S]{%d}`, max+1)}
		neg = fNot(atom(&LAtom{Kind: "search", Regex: rc, Term: t, Desc: fmt.Sprintf("len(%s)>%d", termStr(t), max)}))
	}
	return &Form{Op: "over2", Sub: []*Form{pos, neg}}
}

// callsNoReturn: the block calls a function of the repository that has no return instruction (it always panics).
// validatorCalls: the calls in block b of helpers of the repository that return nothing and can panic ("must"
// helpers): control goes on past such a call only if the helper returns, that is, only on the inputs for which
// one of its returns is reachable. nil if there is none.
func (s *Summarizer) validatorCalls(b *ssa.BasicBlock, env termEnv) *Form {
	var fs []*Form
	for _, in := range b.Instrs {
		c, ok := in.(*ssa.Call)
		if !ok {
			continue
		}
		g := staticCallee(c.Common())
		if g == nil || g.Blocks == nil || g.Pkg == nil || !strings.HasPrefix(g.Pkg.Pkg.Path(), modulePath) || g.Signature.Results().Len() != 0 || len(Returns(g)) == 0 || !mayPanic(g) || s.depth > 8 || hasLoop(g) {
			continue
		}
		_, env2, ok := s.repoCallee(c, env)
		if !ok {
			continue
		}
		s.depth++
		var alts []*Form
		for _, ret := range Returns(g) {
			alts = append(alts, s.blockCond(ret.Block(), env2, fnName(g)+" returns"))
		}
		s.depth--
		fs = append(fs, fOver(fOr(alts...)))
	}
	if len(fs) == 0 {
		return nil
	}
	return fAnd(fs...)
}

// mayPanic: g has a panic statement, or calls a helper of the repository that never returns.
func mayPanic(g *ssa.Function) bool {
	for _, b := range g.Blocks {
		if len(b.Instrs) > 0 {
			if _, ok := b.Instrs[len(b.Instrs)-1].(*ssa.Panic); ok {
				return true
			}
		}
		if callsNoReturn(b) {
			return true
		}
	}
	return false
}

func callsNoReturn(b *ssa.BasicBlock) bool {
	for _, in := range b.Instrs {
		c, ok := in.(*ssa.Call)
		if !ok {
			continue
		}
		g := staticCallee(c.Common())
		if g != nil && g.Blocks != nil && g.Pkg != nil && strings.HasPrefix(g.Pkg.Pkg.Path(), modulePath) && len(Returns(g)) == 0 {
			return true
		}
	}
	return false
}
