package main

import (
	"go/types"
	"strings"

	"golang.org/x/tools/go/ssa"
)

// checkAliasReset: a template that is replaced by name is reset in place by a
// whole-struct store through a pointer taken from the name space's map. That pointer
// may be the receiver itself (x.New(x.Name())). Everything the function still needs
// from another *Template that may be the same object — the name space and text
// template the replacement is built from — must therefore be read before the reset;
// a read after it sees the fresh, unfrozen name space, and the replacement escapes the
// freeze of the executed set.
func checkAliasReset(p *Program, r *Report, rule string) {
	tsp := p.SSAPkg("template")
	isTmplPtr := func(t types.Type) bool {
		pt, ok := t.Underlying().(*types.Pointer)
		return ok && isNamed(pt.Elem(), pkgTemplate, "Template")
	}
	n := 0
	for _, f := range p.SrcFuncs() {
		if f.Pkg != tsp {
			continue
		}
		short := strings.TrimPrefix(fnName(f), pkgTemplate+".")
		for _, b := range f.Blocks {
			for _, in := range b.Instrs {
				// the reset: a whole-struct store through a *Template, or a call of a helper that does that to the
				// template handed to it
				type resetAt struct {
					Addr ssa.Value
					ssa.Instruction
				}
				var st *resetAt
				switch x := in.(type) {
				case *ssa.Store:
					if isTmplPtr(x.Addr.Type()) {
						st = &resetAt{x.Addr, x}
					}
				case *ssa.Call:
					if g := staticCallee(x.Common()); g != nil && g.Pkg == tsp && g != f {
						for _, i := range resetsTemplateParam(g, isTmplPtr, 0) {
							if i < len(x.Common().Args) {
								st = &resetAt{x.Common().Args[i], x}
							}
						}
					}
				}
				if st == nil {
					continue
				}
				if _, fresh := st.Addr.(*ssa.Alloc); fresh {
					continue
				}
				n++
				var bad []string
				for _, b2 := range f.Blocks {
					for _, in2 := range b2.Instrs {
						fa, ok := in2.(*ssa.FieldAddr)
						if !ok || !isTmplPtr(fa.X.Type()) || fa.X == st.Addr {
							continue
						}
						if _, fresh := fa.X.(*ssa.Alloc); fresh || isCtorCall(fa.X) {
							continue
						}
						after := false
						if b2 == b {
							after = before(st.Instruction, fa)
						} else {
							after = blockReaches(b, b2)
						}
						if after {
							bad = append(bad, fieldName(fa.X.Type(), fa.Field)+" of "+fa.X.Name()+" at "+p.Pos(fa.Pos()))
						}
					}
				}
				c := short + "#reset-then-read"
				r.Check(len(bad) == 0, rule, c, p.Pos(st.Pos()), "after a template is reset in place through a map-held pointer, no field of another, possibly identical, template is read",
					"a template is reset in place and afterwards fields of a *Template that may be the same object are read ("+strings.Join(bad, "; ")+"): for x.New(x.Name()) the replacement is built from the fresh name space, outside the executed (frozen) set")
			}
		}
	}
	if n == 0 {
		r.OK(rule, "template#no-in-place-reset", "", "no template is overwritten in place")
	}
}

// resetsTemplateParam: the parameters of g (a *Template each) through which g overwrites the whole template, itself
// or in a helper it hands the parameter to.
func resetsTemplateParam(g *ssa.Function, isTmplPtr func(types.Type) bool, depth int) []int {
	if g == nil || g.Blocks == nil || depth > 2 {
		return nil
	}
	var out []int
	for i, prm := range g.Params {
		if !isTmplPtr(prm.Type()) {
			continue
		}
		hit := false
		for _, ref := range *prm.Referrers() {
			switch x := ref.(type) {
			case *ssa.Store:
				if x.Addr == ssa.Value(prm) {
					hit = true
				}
			case *ssa.Call:
				h := staticCallee(x.Common())
				if h == nil || h == g || h.Pkg != g.Pkg {
					continue
				}
				for _, j := range resetsTemplateParam(h, isTmplPtr, depth+1) {
					if j < len(x.Common().Args) && x.Common().Args[j] == ssa.Value(prm) {
						hit = true
					}
				}
			}
		}
		if hit {
			out = append(out, i)
		}
	}
	return out
}

// isCtorCall: v is a call of a helper of the repository all of whose returns are one struct
// allocated in that helper (a fresh object, distinct from every object that existed before).
func isCtorCall(v ssa.Value) bool {
	c, ok := v.(*ssa.Call)
	if !ok {
		return false
	}
	g := staticCallee(c.Common())
	if g == nil || g.Blocks == nil || g.Pkg == nil || !strings.HasPrefix(g.Pkg.Pkg.Path(), modulePath) || g.Signature.Results().Len() != 1 {
		return false
	}
	var al *ssa.Alloc
	for _, ret := range Returns(g) {
		a, ok := ret.Results[0].(*ssa.Alloc)
		if !ok || !a.Heap || (al != nil && al != a) {
			return false
		}
		al = a
	}
	return al != nil
}
