package main

// Canonical names. The rules name repository symbols (functions, package-level
// variables, struct fields, enum constants) as they were called on the tree the
// rules were written against (anchors/baseline_symbols.json). When a symbol of
// that list is missing from the current tree, it is looked for among the symbols
// that are new in the current tree: same kind, same type/signature, and — when
// several qualify — the clearly most similar body fingerprint. A symbol found that
// way is reported to the rules under its baseline name, so that renaming an
// unexported function, variable, field or constant (or moving it to another file)
// does not change what the rules see. Nothing is matched by position or text.

import (
	"encoding/json"
	"fmt"
	"go/constant"
	"go/types"
	"os"
	"path/filepath"
	"sort"
	"strings"

	"golang.org/x/tools/go/packages"
	"golang.org/x/tools/go/ssa"
)

type symFunc struct {
	Key   string   `json:"key"`   // "Name", "T.Name" or "(*T).Name"
	Sig   string   `json:"sig"`   // signature without parameter names
	Print []string `json:"print"` // fingerprint: string constants, callees outside the module, field names used
}

type symVar struct {
	Name  string   `json:"name"`
	Type  string   `json:"type"`
	Print []string `json:"print"` // keys / elements of a literal initialiser
}

type symStruct struct {
	Name   string     `json:"name"`
	Fields [][]string `json:"fields"` // [name, type]
}

type symConst struct {
	Name  string `json:"name"`
	Type  string `json:"type"`
	Value string `json:"value"`
}

type symPkg struct {
	Funcs   []symFunc   `json:"funcs"`
	Vars    []symVar    `json:"vars"`
	Structs []symStruct `json:"structs"`
	Consts  []symConst  `json:"consts"`
}

type symTable map[string]*symPkg // by import path

// canonical names of the current load (objects are unique per load, so one global map serves all)
var (
	canonObj   = map[types.Object]string{} // func: key; var/const: name; field: name
	canonNotes []string
	// baselineFuncs: package path -> keys of the functions of the pinned tree
	baselineFuncs = map[string]map[string]bool{}
)

func qual(p *types.Package) string {
	if p == nil {
		return ""
	}
	return p.Path()
}

func funcKey(f *types.Func) string {
	sig := f.Type().(*types.Signature)
	if r := sig.Recv(); r != nil {
		t := r.Type()
		ptr := false
		if pt, ok := t.(*types.Pointer); ok {
			t, ptr = pt.Elem(), true
		}
		n := ""
		if nm, ok := t.(*types.Named); ok {
			n = nm.Obj().Name()
		}
		if ptr {
			return "(*" + n + ")." + f.Name()
		}
		return n + "." + f.Name()
	}
	return f.Name()
}

func sigString(f *types.Func) string {
	sig := f.Type().(*types.Signature)
	var ps, rs []string
	for i := 0; i < sig.Params().Len(); i++ {
		ps = append(ps, types.TypeString(sig.Params().At(i).Type(), qual))
	}
	for i := 0; i < sig.Results().Len(); i++ {
		rs = append(rs, types.TypeString(sig.Results().At(i).Type(), qual))
	}
	recv := ""
	if r := sig.Recv(); r != nil {
		recv = types.TypeString(r.Type(), qual) + " "
	}
	v := ""
	if sig.Variadic() {
		v = "..."
	}
	return recv + "(" + strings.Join(ps, ",") + v + ")(" + strings.Join(rs, ",") + ")"
}

func funcPrint(p *Program, f *types.Func) []string {
	set := map[string]bool{}
	sf := p.SSA.FuncValue(f)
	var visit func(fn *ssa.Function)
	visit = func(fn *ssa.Function) {
		if fn == nil {
			return
		}
		for _, b := range fn.Blocks {
			for _, in := range b.Instrs {
				for _, op := range in.Operands(nil) {
					if k, ok := (*op).(*ssa.Const); ok && k.Value != nil && k.Value.Kind() == constant.String {
						s := constant.StringVal(k.Value)
						if len(s) > 2 {
							set["s:"+s] = true
						}
					}
					if k, ok := (*op).(*ssa.Const); ok && k.Value != nil && k.Value.Kind() == constant.Int {
						if v, ok := constant.Int64Val(k.Value); ok && (v > 2 || v < -1) {
							set[fmt.Sprintf("n:%d", v)] = true
						}
					}
				}
				switch x := in.(type) {
				case *ssa.Call:
					if g := staticCallee(x.Common()); g != nil && g.Pkg != nil && !strings.HasPrefix(g.Pkg.Pkg.Path(), modulePath) {
						set["c:"+g.String()] = true
					}
				case *ssa.FieldAddr:
					set["f:"+rawFieldName(x.X.Type(), x.Field)] = true
				case *ssa.Field:
					set["f:"+rawFieldName(x.X.Type(), x.Field)] = true
				}
			}
		}
		for _, a := range fn.AnonFuncs {
			visit(a)
		}
	}
	visit(sf)
	var out []string
	for k := range set {
		out = append(out, k)
	}
	sort.Strings(out)
	return out
}

func rawFieldName(t types.Type, i int) string {
	if p, ok := t.Underlying().(*types.Pointer); ok {
		t = p.Elem()
	}
	if s, ok := t.Underlying().(*types.Struct); ok && i < s.NumFields() {
		return s.Field(i).Name()
	}
	return fmt.Sprintf("f%d", i)
}

func varPrint(p *Program, pk *packages.Package, name string) []string {
	e, _ := p.rawPkgVarInit(pk, name)
	if e == nil {
		return nil
	}
	var hint types.Type
	if o := pk.Types.Scope().Lookup(name); o != nil {
		hint = o.Type()
	}
	l := EvalLit(pk, e, hint)
	if l == nil {
		return nil
	}
	set := map[string]bool{}
	for _, k := range l.Keys {
		if s, ok := k.Str(); ok {
			set["k:"+s] = true
		} else if i, ok := k.Int(); ok {
			set[fmt.Sprintf("k:%d", i)] = true
		}
	}
	if s, ok := l.Str(); ok {
		set["v:"+s] = true
	}
	var out []string
	for k := range set {
		out = append(out, k)
	}
	sort.Strings(out)
	return out
}

// currentSymbols lists the symbols of the loaded repository packages.
func currentSymbols(p *Program) symTable {
	out := symTable{}
	for path, pk := range p.Pkgs {
		if pk.Types == nil {
			continue
		}
		sp := &symPkg{}
		out[path] = sp
		sc := pk.Types.Scope()
		for _, n := range sc.Names() {
			switch o := sc.Lookup(n).(type) {
			case *types.Func:
				sp.Funcs = append(sp.Funcs, symFunc{Key: funcKey(o), Sig: sigString(o), Print: funcPrint(p, o)})
			case *types.Var:
				sp.Vars = append(sp.Vars, symVar{Name: n, Type: types.TypeString(o.Type(), qual), Print: varPrint(p, pk, n)})
			case *types.Const:
				sp.Consts = append(sp.Consts, symConst{Name: n, Type: types.TypeString(o.Type(), qual), Value: o.Val().ExactString()})
			case *types.TypeName:
				if o.IsAlias() {
					continue
				}
				if st, ok := o.Type().Underlying().(*types.Struct); ok {
					ss := symStruct{Name: n}
					for i := 0; i < st.NumFields(); i++ {
						ss.Fields = append(ss.Fields, []string{st.Field(i).Name(), types.TypeString(st.Field(i).Type(), qual)})
					}
					sp.Structs = append(sp.Structs, ss)
				}
				if nm, ok := o.Type().(*types.Named); ok {
					for i := 0; i < nm.NumMethods(); i++ {
						m := nm.Method(i)
						sp.Funcs = append(sp.Funcs, symFunc{Key: funcKey(m), Sig: sigString(m), Print: funcPrint(p, m)})
					}
				}
			}
		}
	}
	return out
}

func baselinePath() string {
	if d := os.Getenv("VERIF_ANCHORS"); d != "" {
		return d
	}
	return "/verif/anchors/baseline_symbols.json"
}

func jaccard(a, b []string) float64 {
	if len(a) == 0 && len(b) == 0 {
		return 1
	}
	set := map[string]bool{}
	for _, x := range a {
		set[x] = true
	}
	inter := 0
	for _, x := range b {
		if set[x] {
			inter++
		}
	}
	union := len(set)
	for _, x := range b {
		if !set[x] {
			union++
		}
	}
	return float64(inter) / float64(union)
}

// pickBest chooses among candidates the one whose fingerprint is clearly the most similar.
func pickBest(want []string, cands [][]string) int {
	if len(cands) == 1 {
		// a single candidate of the right type: accept unless the bodies have nothing in common although both are substantial
		if len(want) >= 4 && len(cands[0]) >= 4 && jaccard(want, cands[0]) < 0.15 {
			return -1
		}
		return 0
	}
	best, second, bi := -1.0, -1.0, -1
	for i, c := range cands {
		s := jaccard(want, c)
		if s > best {
			second, best, bi = best, s, i
		} else if s > second {
			second = s
		}
	}
	if best >= 0.4 && best-second >= 0.2 {
		return bi
	}
	return -1
}

// buildCanon computes the canonical names for the current load.
func buildCanon(p *Program) {
	data, err := os.ReadFile(baselinePath())
	if err != nil {
		canonNotes = append(canonNotes, "no baseline symbol table: "+err.Error())
		return
	}
	var base symTable
	if err := json.Unmarshal(data, &base); err != nil {
		canonNotes = append(canonNotes, "baseline symbol table unreadable: "+err.Error())
		return
	}
	cur := currentSymbols(p)
	for path, bp := range base {
		baselineFuncs[path] = map[string]bool{}
		for _, bf := range bp.Funcs {
			baselineFuncs[path][bf.Key] = true
		}
		cp := cur[path]
		pk := p.Pkgs[path]
		if cp == nil || pk == nil {
			continue
		}
		sc := pk.Types.Scope()
		// ---- structs and fields (first: signatures do not mention field names, but prints do)
		curStruct := map[string]symStruct{}
		for _, s := range cp.Structs {
			curStruct[s.Name] = s
		}
		for _, bs := range bp.Structs {
			cs, ok := curStruct[bs.Name]
			if !ok {
				continue
			}
			tn, _ := sc.Lookup(bs.Name).(*types.TypeName)
			if tn == nil {
				continue
			}
			st, _ := tn.Type().Underlying().(*types.Struct)
			if st == nil {
				continue
			}
			curNames := map[string]bool{}
			for _, f := range cs.Fields {
				curNames[f[0]] = true
			}
			baseNames := map[string]bool{}
			for _, f := range bs.Fields {
				baseNames[f[0]] = true
			}
			for _, bf := range bs.Fields {
				if curNames[bf[0]] {
					continue
				}
				// candidates: new field names of the same type
				var idx []int
				for i, cf := range cs.Fields {
					if !baseNames[cf[0]] && cf[1] == bf[1] {
						idx = append(idx, i)
					}
				}
				if len(idx) == 1 {
					canonObj[st.Field(idx[0])] = bf[0]
					canonNotes = append(canonNotes, fmt.Sprintf("field %s.%s is %s.%s of the baseline", bs.Name, cs.Fields[idx[0]][0], bs.Name, bf[0]))
				}
			}
		}
		// ---- functions and methods
		curFunc := map[string]symFunc{}
		for _, f := range cp.Funcs {
			curFunc[f.Key] = f
		}
		baseFunc := map[string]bool{}
		for _, f := range bp.Funcs {
			baseFunc[f.Key] = true
		}
		taken := map[string]bool{}
		for _, bf := range bp.Funcs {
			if _, ok := curFunc[bf.Key]; ok {
				continue
			}
			var cands []symFunc
			var prints [][]string
			for _, cf := range cp.Funcs {
				if baseFunc[cf.Key] || taken[cf.Key] || cf.Sig != bf.Sig {
					continue
				}
				cands = append(cands, cf)
				prints = append(prints, cf.Print)
			}
			if len(cands) == 0 {
				// a function turned into a method on its first parameter (or the reverse): same parameters once the
				// receiver is counted as the first one
				for _, cf := range cp.Funcs {
					if baseFunc[cf.Key] || taken[cf.Key] || flatSig(cf.Sig) != flatSig(bf.Sig) {
						continue
					}
					cands = append(cands, cf)
					prints = append(prints, cf.Print)
				}
			}
			if len(cands) == 0 {
				// the same name with the same number of parameters (receiver counted), e.g. a function that took a
				// *Template and now is a method of the name space it only used
				base := bf.Key[strings.LastIndex(bf.Key, ".")+1:]
				for _, cf := range cp.Funcs {
					if baseFunc[cf.Key] || taken[cf.Key] || cf.Key[strings.LastIndex(cf.Key, ".")+1:] != base {
						continue
					}
					if strings.Count(flatSig(cf.Sig), ",") != strings.Count(flatSig(bf.Sig), ",") {
						continue
					}
					cands = append(cands, cf)
					prints = append(prints, cf.Print)
				}
				if len(cands) != 1 {
					cands, prints = nil, nil
				}
			}
			if len(cands) == 0 {
				// renamed and moved to another receiver at once: the same number of parameters (receiver counted) and
				// of results, and a body that clearly is the baseline's (shared string constants, callees, fields)
				nres := func(sig string) int {
					i := strings.LastIndex(sig, ") ")
					if i < 0 {
						return 0
					}
					return strings.Count(sig[i+2:], ",") + 1
				}
				for _, cf := range cp.Funcs {
					if baseFunc[cf.Key] || taken[cf.Key] || len(bf.Print) < 4 {
						continue
					}
					if strings.Count(flatSig(cf.Sig), ",") != strings.Count(flatSig(bf.Sig), ",") || nres(cf.Sig) != nres(bf.Sig) {
						continue
					}
					cands = append(cands, cf)
					prints = append(prints, cf.Print)
				}
				if len(cands) == 1 && jaccard(bf.Print, prints[0]) < 0.4 {
					cands, prints = nil, nil
				}
			}
			if len(cands) == 0 {
				continue
			}
			if i := pickBest(bf.Print, prints); i >= 0 {
				taken[cands[i].Key] = true
				if obj := lookupFuncByKey(pk, cands[i].Key); obj != nil {
					canonObj[obj] = bf.Key
					canonNotes = append(canonNotes, fmt.Sprintf("function %s is %s of the baseline", cands[i].Key, bf.Key))
				}
			}
		}
		// ---- package-level variables
		curVar := map[string]symVar{}
		for _, v := range cp.Vars {
			curVar[v.Name] = v
		}
		baseVar := map[string]bool{}
		for _, v := range bp.Vars {
			baseVar[v.Name] = true
		}
		takenV := map[string]bool{}
		for _, bv := range bp.Vars {
			if _, ok := curVar[bv.Name]; ok {
				continue
			}
			var cands []symVar
			var prints [][]string
			for _, cv := range cp.Vars {
				if baseVar[cv.Name] || takenV[cv.Name] || cv.Type != bv.Type {
					continue
				}
				cands = append(cands, cv)
				prints = append(prints, cv.Print)
			}
			if len(cands) == 0 {
				continue
			}
			if i := pickBest(bv.Print, prints); i >= 0 {
				takenV[cands[i].Name] = true
				if obj := sc.Lookup(cands[i].Name); obj != nil {
					canonObj[obj] = bv.Name
					canonNotes = append(canonNotes, fmt.Sprintf("variable %s is %s of the baseline", cands[i].Name, bv.Name))
				}
			}
		}
		// ---- constants: same type and value, new name
		curConst := map[string]bool{}
		for _, c := range cp.Consts {
			curConst[c.Name] = true
		}
		baseConst := map[string]bool{}
		for _, c := range bp.Consts {
			baseConst[c.Name] = true
		}
		for _, bc := range bp.Consts {
			if curConst[bc.Name] {
				continue
			}
			var cands []string
			for _, cc := range cp.Consts {
				if !baseConst[cc.Name] && cc.Type == bc.Type && cc.Value == bc.Value {
					cands = append(cands, cc.Name)
				}
			}
			if len(cands) == 1 {
				if obj := sc.Lookup(cands[0]); obj != nil {
					canonObj[obj] = bc.Name
					canonNotes = append(canonNotes, fmt.Sprintf("constant %s is %s of the baseline", cands[0], bc.Name))
				}
			}
		}
	}
	sort.Strings(canonNotes)
}

func lookupFuncByKey(pk *packages.Package, key string) types.Object {
	sc := pk.Types.Scope()
	if !strings.Contains(key, ".") {
		return sc.Lookup(key)
	}
	n := strings.TrimPrefix(key, "(*")
	n = strings.Replace(n, ")", "", 1)
	parts := strings.SplitN(n, ".", 2)
	tn, _ := sc.Lookup(parts[0]).(*types.TypeName)
	if tn == nil {
		return nil
	}
	nm, _ := tn.Type().(*types.Named)
	if nm == nil {
		return nil
	}
	for i := 0; i < nm.NumMethods(); i++ {
		if nm.Method(i).Name() == parts[1] {
			return nm.Method(i)
		}
	}
	return nil
}

// canonName returns the baseline name of an object (its own name when it was not renamed).
func canonName(o types.Object) string {
	if o == nil {
		return ""
	}
	if n, ok := canonObj[o]; ok {
		return n
	}
	return o.Name()
}

// dumpSymbols writes the symbol table of the current tree (to regenerate the baseline deliberately).
func dumpSymbols(p *Program, path string) error {
	tab := currentSymbols(p)
	for _, sp := range tab {
		sort.Slice(sp.Funcs, func(i, j int) bool { return sp.Funcs[i].Key < sp.Funcs[j].Key })
		sort.Slice(sp.Vars, func(i, j int) bool { return sp.Vars[i].Name < sp.Vars[j].Name })
		sort.Slice(sp.Structs, func(i, j int) bool { return sp.Structs[i].Name < sp.Structs[j].Name })
		sort.Slice(sp.Consts, func(i, j int) bool { return sp.Consts[i].Name < sp.Consts[j].Name })
	}
	b, err := json.MarshalIndent(tab, "", " ")
	if err != nil {
		return err
	}
	os.MkdirAll(filepath.Dir(path), 0o755)
	return os.WriteFile(path, b, 0o644)
}

// cname: the canonical short name of a function (method name for methods) or package-level variable.
func cname(x interface{ Object() types.Object }) string {
	switch v := x.(type) {
	case *ssa.Function:
		if v == nil {
			return ""
		}
		if o := v.Object(); o != nil {
			if c, ok := canonObj[o]; ok {
				return c[strings.LastIndex(c, ".")+1:]
			}
		}
		return v.Name()
	case *ssa.Global:
		if v == nil {
			return ""
		}
		return canonName(v.Object())
	}
	return ""
}

// flatSig: a signature with the receiver counted as the first parameter.
func flatSig(s string) string {
	if strings.HasPrefix(s, "(") {
		return s
	}
	i := strings.Index(s, " (")
	if i < 0 {
		return s
	}
	recv, rest := s[:i], s[i+2:]
	if strings.HasPrefix(rest, ")") {
		return "(" + recv + rest
	}
	return "(" + recv + "," + rest
}
