package main

import (
	"fmt"
	"go/token"
	"go/types"

	"safecheck/relang"

	"golang.org/x/tools/go/ssa"
)

// stateDispatch: which transition function handles which tokenizer state — read from the dispatch table
// (transitionFunc[c.state]) or, when the table has been replaced by a function that switches on the state,
// from the decision table of that function over all state constants.
func stateDispatch(p *Program) (map[int64]*ssa.Function, string, error) {
	tpk := p.Pkg("template")
	stObj := tpk.Types.Scope().Lookup("state")
	if stObj == nil {
		return nil, "", fmt.Errorf("anchor not found: type state")
	}
	states := ConstNames(tpk, stObj.Type())
	out := map[int64]*ssa.Function{}
	if lit, err := p.VarLit("template", "transitionFunc"); err == nil {
		for i, k := range lit.Keys {
			kv, _ := k.Int()
			if lit.Vals[i].Kind == "func" {
				if f, ok := lit.Vals[i].Obj.(*types.Func); ok {
					out[kv] = p.SSA.FuncValue(f)
				}
			}
		}
		return out, p.Pos(lit.Pos), nil
	}
	cat := p.Func("template", "contextAfterText")
	if cat == nil {
		return nil, "", fmt.Errorf("anchor not found: neither a transition table nor the text scanner")
	}
	sameSig := func(a, b *ssa.Function) bool { return types.Identical(a.Signature, b.Signature) }
	var disp *ssa.Function
	for _, b := range cat.Blocks {
		for _, in := range b.Instrs {
			if c, ok := in.(*ssa.Call); ok {
				if g := staticCallee(c.Common()); g != nil && g.Pkg == cat.Pkg && g.Blocks != nil && sameSig(g, cat) {
					// a dispatcher: tests the state of its context parameter
					for _, bb := range g.Blocks {
						for _, i2 := range bb.Instrs {
							if v, ok := i2.(ssa.Value); ok && isStateLoadOf(v, g.Params[0]) {
								disp = g
							}
						}
					}
				}
			}
		}
	}
	if disp == nil {
		return nil, "", fmt.Errorf("anchor not found: variable transitionFunc in package \"template\" (and no function that dispatches on the state)")
	}
	var stateVal ssa.Value
	aliases := map[ssa.Value]bool{}
	for _, bb := range disp.Blocks {
		for _, i2 := range bb.Instrs {
			if v, ok := i2.(ssa.Value); ok && isStateLoadOf(v, disp.Params[0]) {
				if stateVal == nil {
					stateVal = v
				} else {
					aliases[v] = true
				}
			}
		}
	}
	dom := &relang.Set{}
	for k := range states {
		dom = dom.Union(relang.NewSet(int32(k), int32(k)))
	}
	callee := func(b *ssa.BasicBlock) *ssa.Function {
		ret, ok := b.Instrs[len(b.Instrs)-1].(*ssa.Return)
		if !ok || len(ret.Results) != 2 {
			return nil
		}
		ex, ok := ret.Results[0].(*ssa.Extract)
		if !ok {
			return nil
		}
		c, ok := ex.Tuple.(*ssa.Call)
		if !ok {
			return nil
		}
		g := staticCallee(c.Common())
		if g == nil || !sameSig(g, disp) || len(c.Common().Args) != 2 || c.Common().Args[1] != ssa.Value(disp.Params[1]) {
			return nil
		}
		// the context handed on is the dispatcher's own (the parameter or its local copy)
		a0 := c.Common().Args[0]
		if a0 != ssa.Value(disp.Params[0]) {
			u, ok := a0.(*ssa.UnOp)
			if !ok {
				return nil
			}
			al, ok := u.X.(*ssa.Alloc)
			if !ok {
				return nil
			}
			if st := singleStoreLoose(al); st == nil || st.Val != ssa.Value(disp.Params[0]) {
				return nil
			}
		}
		return g
	}
	leaves := decisionTable(disp.Blocks[0], dtConfig{Var: stateVal, Aliases: aliases, Dom: dom, Max: 2000, Leaf: func(b *ssa.BasicBlock) (string, bool) {
		if g := callee(b); g != nil {
			return "call:" + g.Name(), true
		}
		return "", false
	}})
	for _, l := range leaves {
		if len(l.Tags) > 0 {
			return nil, "", fmt.Errorf("%s branches on something other than the state", disp.Name())
		}
		g := callee(l.Block)
		if g == nil {
			continue // panic / default: no function for these states
		}
		for i := 0; i+1 < len(l.Set.R); i += 2 {
			for v := l.Set.R[i]; v <= l.Set.R[i+1]; v++ {
				out[int64(v)] = g
			}
		}
	}
	return out, p.Pos(disp.Pos()), nil
}

// isStateLoadOf: v reads field "state" of the context value prm (directly or through its local copy).
func isStateLoadOf(v ssa.Value, prm *ssa.Parameter) bool {
	switch x := v.(type) {
	case *ssa.Field:
		return x.X == ssa.Value(prm) && fieldName(x.X.Type(), x.Field) == "state"
	case *ssa.UnOp:
		if fa, ok := x.X.(*ssa.FieldAddr); ok && x.Op == token.MUL && fieldName(fa.X.Type(), fa.Field) == "state" {
			if al, ok := fa.X.(*ssa.Alloc); ok {
				if st := singleStoreLoose(al); st != nil && st.Val == ssa.Value(prm) {
					return true
				}
			}
		}
	}
	return false
}
