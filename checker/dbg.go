package main

import (
	"fmt"
	"os"
)

func init() {
	register("DBG", "other", func(p *Program, r *Report) {
		fn := p.Func(os.Getenv("DBG_PKG"), os.Getenv("DBG_FN"))
		if fn == nil {
			fmt.Println("not found")
			return
		}
		fn.WriteTo(os.Stdout)
	})
}
