package main

import (
	"fmt"
	"go/token"
	"go/types"
	"strings"

	"golang.org/x/tools/go/ssa"

	"safecheck/relang"
)

func init() {
	register("C13", "other", func(p *Program, r *Report) {
		runC13(p, r)
		checkBoundsProven(p, r, "C13.B1", "trustedresourceurl.go")
		checkLoopsMakeProgress(p, r, "C13.B2", "trustedresourceurl.go")
	})
}

// DESIGN A.6
const (
	specTRUPrefix = `^(?:(?:[hH][tT][tT][pP][sS]:)?//[0-9A-Za-z.:\[\]\-]+/|/[^/\\]|[aA][bB][oO][uU][tT]:[bB][lL][aA][nN][kK]#)`
	specMarker    = `^%\{[0-9A-Za-z_]+\}$`
	specDotDot    = `(?:\.|%2[eE])(?:\.|%2[eE])`
)

const pkgUtil = modulePath + "/internal/safehtmlutil"

func isCallTo(v ssa.Value, full string) (*ssa.Call, bool) {
	c, ok := v.(*ssa.Call)
	if !ok {
		return nil, false
	}
	f := staticCallee(c.Common())
	if f == nil {
		return nil, false
	}
	if n := fnName(f); n != full {
		// errors.New(text) is the same thing as fmt.Errorf with a verb-free format: a fresh non-nil error
		if !(full == "fmt.Errorf" && n == "errors.New") {
			return nil, false
		}
	}
	return c, true
}

// queryEscapeOf: v == safehtmlutil.QueryEscapeURL(x) with a single argument; returns x.
func queryEscapeOf(v ssa.Value) (ssa.Value, bool) {
	c, ok := isCallTo(v, pkgUtil+".QueryEscapeURL")
	if !ok {
		return nil, false
	}
	args, ok := variadicArgs(c.Common().Args[0])
	if !ok || len(args) != 1 {
		return nil, false
	}
	return unIface(args[0]), true
}

func checkURLProcEscapeMode(p *Program, r *Report, rule string) *urlProcTables {
	t, err := extractURLProcessor(p)
	if err != nil {
		r.Undec(rule, "safehtmlutil.urlProcessor", "", err.Error())
		return nil
	}
	cn := "safehtmlutil.urlProcessor"
	pos := p.Pos(t.Fn.Pos())
	for _, pr := range t.Problems {
		r.Undec(rule, cn+"#table", pos, pr)
	}
	for _, u := range undecidedLeaves(t.Leaves) {
		r.Undec(rule, cn+"#table", pos, u)
	}
	copied := effectSet(t.Leaves, "copy", []string{"norm=false"})
	escaped := effectSet(t.Leaves, "escape", []string{"norm=false"})
	want := unreservedSet()
	if copied.Equal(want) && escaped.Equal(byteDomain().Minus(want)) {
		r.OK(rule, cn+"#escape-mode-table", pos, "QueryEscapeURL copies exactly ALPHA DIGIT - . _ ~ and percent-encodes every other byte")
	} else {
		extra := copied.Minus(want)
		d := "copied unescaped: " + copied.String()
		w := ""
		if !extra.Empty() {
			w = fmt.Sprintf("%+q", string(rune(extra.R[0])))
			d = "bytes outside the unreserved set are copied unescaped: " + extra.String()
		}
		r.Viol(rule, cn+"#escape-mode-table", pos, d, w)
	}
	r.Check(t.Format == "%%02x" || t.Format == "%%02X", rule, cn+"#escape-format", pos, "escapes are '%' + two hex digits ("+t.Format+")", "escape format is "+t.Format)
	r.Check(t.ShapeOK, rule, cn+"#bookkeeping", pos, "output = unescaped runs s[written:i] interleaved with the escapes, tail appended, input returned as is when nothing was escaped", "copy/escape bookkeeping not recognised: "+t.ShapeDetail)
	// the two wrappers select the modes
	for _, w := range []struct {
		name string
		norm bool
	}{{"QueryEscapeURL", false}, {"NormalizeURL", true}} {
		f := p.Func("internal/safehtmlutil", w.name)
		ok := false
		if f != nil {
			for _, ret := range Returns(f) {
				if c, isC := ret.Results[0].(*ssa.Call); isC && staticCallee(c.Common()) == t.Fn {
					// the mode is the constant whose table was checked above (escape mode for QueryEscapeURL, normalise mode for NormalizeURL)
					wantMode := t.ModeEscape
					if w.norm {
						wantMode = t.ModeNorm
					}
					if c.Common().Args[t.ModeIdx] == ssa.Value(wantMode) {
						if sc, ok2 := isCallTo(c.Common().Args[t.StrIdx], pkgUtil+".Stringify"); ok2 && sc.Common().Args[0] == ssa.Value(f.Params[0]) {
							ok = true
						}
					}
				}
			}
		}
		r.Check(ok, rule, "safehtmlutil."+w.name, "", fmt.Sprintf("%s = urlProcessor(%v, Stringify(args...))", w.name, w.norm), w.name+" does not call urlProcessor with the expected mode on its stringified arguments")
	}
	return t
}

func runC13(p *Program, r *Report) {
	engineConsistency(p, r, "C13.E", func(n string) bool { return strings.Contains(n, "") })

	r.Trusted = []string{"go/types + go/ssa", "regexp/syntax semantics as modelled by relang", "regexp.ReplaceAllStringFunc replaces exactly the matches of the marker pattern with the closure's results", "sort.Strings / strings.Join", "net/url-level reading of the result (paper): text over unreserved characters cannot introduce a delimiter"}
	r.NotDecided = []string{"equality of the net/url decomposition of the result with that of the format/base", "TrustedResourceURLAppend(t, \"..\") (observation O5: the statement's dot-segment clause is about format arguments)"}
	r.Explain = "Prefix guard: the success construction of both builders is dominated by the prefix predicate, whose regular language is included in the statement's four prefixes (ASCII case only). Substitution: the closure handed to ReplaceAllStringFunc returns only \"\" (with the error set) or QueryEscapeURL(args[label]); marker language. Escape alphabet: urlProcessor's byte decision table in escape mode copies exactly the unreserved set. Dot segments: the nil-error construction is dominated by a guard on the assembled string whose language excludes every string with two adjacent dot units. WithParams: fragment split/re-append, separator choice, encoded sorted pairs."
	for _, m := range []struct {
		r string
		n int
	}{{"C13.R1", 5}, {"C13.R2", 4}, {"C13.R3", 5}, {"C13.R4", 1}, {"C13.R5", 2}, {"C13.R6", 6}, {"C13.R7", 1}} {
		r.Min(m.r, m.n)
	}
	regs, _ := p.AllRegexes()
	pv := NewProv(p)
	pv.NoInline = true

	// ---- entry points delegate to the formatter ------------------------------
	var formatter *ssa.Function
	for _, name := range []string{"TrustedResourceURLFormatFromConstant", "TrustedResourceURLFormatFromFlag"} {
		f := p.Func("", name)
		cn := "safehtml." + name
		if f == nil {
			r.Undec("C13.R1", cn, "", "anchor not found")
			continue
		}
		ok := false
		for _, ret := range Returns(f) {
			ex0, ok0 := ret.Results[0].(*ssa.Extract)
			ex1, ok1 := ret.Results[1].(*ssa.Extract)
			if ok0 && ok1 && ex0.Tuple == ex1.Tuple && ex0.Index == 0 && ex1.Index == 1 {
				if c, isC := ex0.Tuple.(*ssa.Call); isC {
					if g := staticCallee(c.Common()); g != nil && g.Pkg == f.Pkg && len(c.Common().Args) == 2 && c.Common().Args[1] == ssa.Value(f.Params[1]) {
						a0 := pv.Of(c.Common().Args[0])
						fromParam := false
						a0.Walk(func(e *Expr) bool {
							if e.Op == "param" && e.Idx == 0 {
								fromParam = true
							}
							return true
						})
						if fromParam && (formatter == nil || formatter == g) {
							formatter = g
							ok = true
						}
					}
				}
			}
		}
		r.Check(ok, "C13.R1", cn, p.Pos(f.Pos()), "returns the shared formatter's result on (format, args)", "does not delegate to the shared formatter")
	}
	if formatter == nil {
		r.Undec("C13.R1", "formatter", "", "shared formatter not identified")
		return
	}
	fcn := fnName(formatter)
	// ---- R1 prefix guards -------------------------------------------------
	type builder struct {
		fn      *ssa.Function
		cn      string
		guarded func(fn *ssa.Function) ssa.Value // the value that must pass the prefix predicate
	}
	appendFn := p.Func("", "TrustedResourceURLAppend")
	builders := []builder{{formatter, fcn, func(fn *ssa.Function) ssa.Value { return fn.Params[0] }}}
	if appendFn == nil {
		r.Undec("C13.R5", "safehtml.TrustedResourceURLAppend", "", "anchor not found")
	} else {
		builders = append(builders, builder{appendFn, "safehtml.TrustedResourceURLAppend", nil})
	}
	var fmtSite *CtorSite
	var fmtSumm *Summarizer
	var fmtRet ssa.Value
	for _, b := range builders {
		s := NewSummarizer(p, regs)
		env := termEnv{}
		var base ssa.Value
		if b.guarded != nil {
			base = b.guarded(b.fn)
			env[base] = Term{Param: 0}
		} else {
			// loads of t.str (t is a spilled parameter): every load of field str of param 0 is term 0
			for _, blk := range b.fn.Blocks {
				for _, in := range blk.Instrs {
					if u, ok := in.(*ssa.UnOp); ok && u.Op == token.MUL {
						e := pv.Of(u)
						if e.Op == "field" && p.isWrappedFieldName(e.Name) && e.Args[0].Op == "param" && e.Args[0].Idx == 0 {
							env[u] = Term{Param: 0}
						}
					}
				}
			}
		}
		// the assembled string of the formatter is term 1
		var sites []CtorSite
		for _, st := range safeStores(b.fn, modulePath, "TrustedResourceURL") {
			if b.fn == formatter {
				env[st.Store.Val] = Term{Param: 1}
			}
			sites = append(sites, CtorSite{Store: st.Store, Val: pv.Of(st.Store.Val), Pos: p.Pos(st.Store.Pos())})
		}
		if len(sites) != 1 {
			r.Undec("C13.R1", b.cn, p.Pos(b.fn.Pos()), fmt.Sprintf("expected one construction with content, found %d", len(sites)))
			continue
		}
		site := &sites[0]
		site.Cond = s.blockCond(site.Store.Block(), env, b.cn+" store")
		per, ok := splitByParam(site.Cond)
		if !ok || per[0] == nil {
			r.Viol("C13.R1", b.cn+"#prefix-guard", site.Pos, "the construction is not dominated by a prefix predicate on the format/base: "+site.Cond.String(), "")
		} else {
			L := NewLang()
			L.Props = map[string]bool{substErrProp(formatter): true}
			if err := registerSumm(L, s, site.Cond); err != nil {
				r.Undec("C13.R1", b.cn+"#prefix-guard", site.Pos, err.Error())
			} else {
				L.MustRe(specTRUPrefix)
				L.Build()
				d, amb, err := L.Eval(per[0])
				if err != nil || len(amb) > 0 {
					r.Undec("C13.R1", b.cn+"#prefix-guard", site.Pos, fmt.Sprintf("%v %v", err, amb))
				} else if ok, w := relang.Subset(d, L.SearchRe(specTRUPrefix)); ok {
					r.OK("C13.R1", b.cn+"#prefix-guard", site.Pos, "accepted formats/bases "+per[0].String()+" ⊆ https://origin/ | //origin/ | /[^/\\] | about:blank# (ASCII case-insensitive)")
				} else {
					r.Viol("C13.R1", b.cn+"#prefix-guard", site.Pos, "a format/base outside the statement's four prefixes is accepted", w)
				}
			}
		}
		// failure returns are zero values
		for i, ret := range Returns(b.fn) {
			if site.Store.Block().Dominates(ret.Block()) {
				continue
			}
			r.Check(zeroResultAt(ret, 0), "C13.R1", fmt.Sprintf("%s#failure-return%d", b.cn, i), p.Pos(ret.Pos()), "failure returns the zero TrustedResourceURL", "a path that bypasses the checked construction returns a non-zero TrustedResourceURL")
		}
		if b.fn == formatter {
			fmtSite, fmtSumm, fmtRet = site, s, site.Store.Val
		} else {
			// ---- R5 Append shape: t.str + QueryEscapeURL(s)
			okShape := false
			if bo, ok := site.Store.Val.(*ssa.BinOp); ok && bo.Op == token.ADD {
				l := pv.Of(bo.X)
				arg, okq := queryEscapeOf(bo.Y)
				okShape = l.Op == "field" && p.isWrappedFieldName(l.Name) && l.Args[0].Op == "param" && l.Args[0].Idx == 0 && okq && arg == ssa.Value(b.fn.Params[1])
			}
			r.Check(okShape, "C13.R5", b.cn+"#shape", site.Pos, "result = base + QueryEscapeURL(s)", "result is not base + QueryEscapeURL(s): "+site.Val.String())
			for _, ret := range Returns(b.fn) {
				if site.Store.Block().Dominates(ret.Block()) {
					k, ok := ret.Results[1].(*ssa.Const)
					r.Check(ok && k.Value == nil, "C13.R5", b.cn+"#success", p.Pos(ret.Pos()), "success returns a nil error", "success path returns a non-nil error")
				}
			}
		}
	}
	// ---- R2 substitution ---------------------------------------------------
	if fmtRet != nil {
		checkFormatSubstitution(p, r, pv, regs, formatter, fmtRet)
	}
	// ---- R3 escape alphabet --------------------------------------------------
	checkURLProcEscapeMode(p, r, "C13.R3")
	// ---- R4 dot segments on the assembled string -------------------------------
	if fmtSite != nil {
		per, _ := splitByParam(fmtSite.Cond)
		c := fcn + "#assembled-dotdot-guard"
		if per == nil || per[1] == nil {
			r.Viol("C13.R4", c, fmtSite.Pos, "no guard on the assembled URL dominates the nil-error construction, so arguments can combine (\".\" + \".\") into a \"..\" segment; guards: "+fmtSite.Cond.String(), `format "https://h/x/%{a}%{b}/y" with a=".", b="."`)
		} else {
			L := NewLang()
			L.Props = map[string]bool{substErrProp(formatter): true}
			if err := registerSumm(L, fmtSumm, fmtSite.Cond); err != nil {
				r.Undec("C13.R4", c, fmtSite.Pos, err.Error())
			} else {
				L.MustRe(specDotDot)
				L.Build()
				d, amb, err := L.Eval(per[1])
				if err != nil || len(amb) > 0 {
					r.Undec("C13.R4", c, fmtSite.Pos, fmt.Sprintf("%v %v", err, amb))
				} else if ok, w := relang.Disjoint(d, L.SearchRe(specDotDot)); ok {
					r.OK("C13.R4", c, fmtSite.Pos, "with a nil error the assembled URL satisfies "+per[1].String()+", which excludes two adjacent dot units (. or %2e) anywhere")
				} else {
					r.Viol("C13.R4", c, fmtSite.Pos, "an assembled URL containing a \"..\" built from arguments is returned with a nil error; guards: "+per[1].String(), w)
				}
			}
		}
		// ---- R7 the assembled URL keeps the kind of prefix the format was accepted for ---------
		// A format that is a path ("/x…") must not expand to something that starts with "//" or "/\": an
		// empty argument directly after the leading slash would otherwise turn the first path segment into a host.
		{
			c := fcn + "#path-format-stays-path"
			L := NewLang()
			L.Props = map[string]bool{substErrProp(formatter): true}
			if err := registerSumm(L, fmtSumm, fmtSite.Cond); err != nil {
				r.Undec("C13.R7", c, fmtSite.Pos, err.Error())
			} else {
				const pathStart, hostStart = `^/[^/\\]`, `^/[/\\]`
				L.MustRe(pathStart)
				L.MustRe(hostStart)
				L.Build()
				S := L.SearchRe(pathStart)
				residual := assumeOnTerm(L, fmtSite.Cond, 0, S)
				per, _ := splitByParam(residual)
				var d *relang.DFA
				var err error
				var amb []string
				if per[1] == nil {
					d = L.All()
				} else {
					d, amb, err = L.Eval(per[1])
				}
				switch {
				case err != nil || len(amb) > 0:
					r.Undec("C13.R7", c, fmtSite.Pos, fmt.Sprintf("%v %v", err, amb))
				default:
					if ok, w := relang.Disjoint(d, L.SearchRe(hostStart)); ok {
						r.OK("C13.R7", c, fmtSite.Pos, "for a format that is a path, the assembled URL is returned with a nil error only if it does not start with // or /\\")
					} else {
						r.Viol("C13.R7", c, fmtSite.Pos, "a format that is a path (\"/%{a}/%{b}/x.js\") can expand to a URL that starts with \"//\" or \"/\\\" (an empty argument directly after the leading slash): the browser then reads the next segment as the host, so an argument chooses the origin", w)
					}
				}
			}
		}
		// the returned error is the closure's error variable (nil(err) refers to it)
		okErr := false
		for _, ret := range Returns(formatter) {
			if fmtSite.Store.Block().Dominates(ret.Block()) {
				if cells := substitutionCells(formatter); cells != nil && cells.isErrLoad(ret.Results[1]) {
					okErr = true
				}
			}
		}
		r.Check(okErr, "C13.R2", fcn+"#error-returned", fmtSite.Pos, "the error recorded during substitution is what the formatter returns", "the substitution error is not returned")
	}
	// ---- R6 WithParams -------------------------------------------------------
	checkWithParams(p, r, pv)
}

func checkFormatSubstitution(p *Program, r *Report, pv *Prov, regs map[string]*RegexConst, formatter *ssa.Function, ret ssa.Value) {
	fcn := fnName(formatter)
	call, ok := isCallTo(ret, "(*regexp.Regexp).ReplaceAllStringFunc")
	if !ok {
		r.Viol("C13.R2", fcn+"#substitution", p.Pos(formatter.Pos()), "the result is not pattern.ReplaceAllStringFunc(format, f): "+pv.Of(ret).String(), "")
		return
	}
	pos := p.Pos(call.Pos())
	srcOK := call.Common().Args[1] == ssa.Value(formatter.Params[0])
	r.Check(srcOK, "C13.R2", fcn+"#substitution", pos, "result = markerPattern.ReplaceAllStringFunc(format, closure)", "ReplaceAllStringFunc is not applied to the format")
	// marker language
	s := NewSummarizer(p, regs)
	rc := s.regexOf(call.Common().Args[0])
	if rc == nil {
		r.Undec("C13.R2", fcn+"#marker-pattern", pos, "marker pattern not resolved")
	} else {
		L := NewLang()
		L.Re(rc.Src)
		L.MustRe(specMarker)
		L.Build()
		if ok, w := relang.Equivalent(L.FullRe(rc.Src), L.SearchRe(specMarker)); ok {
			r.OK("C13.R2", fcn+"#marker-pattern", p.Pos(rc.Pos), "markers are exactly %{[0-9A-Za-z_]+}")
		} else {
			r.Viol("C13.R2", fcn+"#marker-pattern", p.Pos(rc.Pos), "marker language differs from %{label}", w)
		}
	}
	if _, ok := call.Common().Args[2].(*ssa.MakeClosure); !ok {
		r.Undec("C13.R2", fcn+"#closure", pos, "replacement function is not a closure literal or a bound method")
		return
	}
	cells := substitutionCells(formatter)
	if cells == nil {
		r.Undec("C13.R2", fcn+"#closure", pos, "the replacement function does not reach the argument map and an error variable of the formatter (captured variables, or fields of the struct it is bound to)")
		return
	}
	cl := cells.cl
	match := cells.match
	for i, ret := range Returns(cl) {
		c := fmt.Sprintf("%s$closure#return%d", fcn, i)
		rpos := p.Pos(ret.Pos())
		v := ret.Results[0]
		if k, ok := constString(v); ok {
			// must be on a path where err is set: a store of a non-nil value into err dominates, or err != nil already
			errSet := false
			for _, b := range cl.Blocks {
				for _, in := range b.Instrs {
					if st, ok := in.(*ssa.Store); ok && cells.isErr(st.Addr) {
						if _, isErrorf := isCallTo(st.Val, "fmt.Errorf"); isErrorf {
							// the store's block, or its if-join, dominates the return
							if b.Dominates(ret.Block()) {
								errSet = true
							}
							for _, su := range b.Succs {
								if su == ret.Block() {
									// store guarded by err == nil, join is the return block: err non-nil either way
									for _, g := range GuardsOf(b) {
										if bo, ok := g.Cond.(*ssa.BinOp); ok && g.Pol && bo.Op == token.EQL {
											if u, ok := bo.X.(*ssa.UnOp); ok && cells.isErr(u.X) {
												errSet = true
											}
										}
									}
								}
							}
						}
					}
				}
			}
			r.Check(k == "" && errSet, "C13.R2", c, rpos, "empty replacement only with the error set", fmt.Sprintf("constant replacement %q, or the error is not set on this path", k))
			continue
		}
		arg, ok := queryEscapeOf(v)
		if !ok {
			r.Viol("C13.R2", c, rpos, "a marker is replaced by something other than QueryEscapeURL(argument): "+pv.Of(v).String(), "")
			continue
		}
		// arg = args[label] (comma-ok lookup), label = match[2:len(match)-1], guarded by ok
		okArg := false
		var lookup *ssa.Lookup
		if ex, isEx := arg.(*ssa.Extract); isEx && ex.Index == 0 {
			lookup, _ = ex.Tuple.(*ssa.Lookup)
		}
		if lookup != nil && lookup.CommaOk {
			if u, ok := lookup.X.(*ssa.UnOp); ok && cells.isArgs(u.X) {
				if sl, ok := lookup.Index.(*ssa.Slice); ok && sl.X == match {
					lo, okLo := constIntExpr(sl.Low)
					hiOK := false
					if hb, ok := sl.High.(*ssa.BinOp); ok && hb.Op == token.SUB {
						if k, ok := constIntExpr(hb.Y); ok && k == 1 {
							if lc, ok := hb.X.(*ssa.Call); ok {
								if bi, ok := lc.Common().Value.(*ssa.Builtin); ok && bi.Name() == "len" && lc.Common().Args[0] == match {
									hiOK = true
								}
							}
						}
					}
					okArg = okLo && lo == 2 && hiOK
				}
			}
		}
		present := false
		for _, g := range GuardsOf(ret.Block()) {
			if ex, ok := g.Cond.(*ssa.Extract); ok && g.Pol && lookup != nil && ex.Tuple == ssa.Value(lookup) && ex.Index == 1 {
				present = true
			}
		}
		r.Check(okArg && present, "C13.R2", c, rpos, "marker replaced by QueryEscapeURL(args[label]) with label = marker without %{ }, only when the key is present", "replacement is not QueryEscapeURL(args[label]) under a presence check")
	}
}

func checkWithParams(p *Program, r *Report, pv *Prov) {
	const cn = "safehtml.TrustedResourceURLWithParams"
	fn := p.Func("", "TrustedResourceURLWithParams")
	if fn == nil {
		r.Undec("C13.R6", cn, "", "anchor not found")
		return
	}
	stores := safeStores(fn, modulePath, "TrustedResourceURL")
	if len(stores) != 1 {
		r.Undec("C13.R6", cn, p.Pos(fn.Pos()), fmt.Sprintf("expected one construction, found %d", len(stores)))
		return
	}
	pos := p.Pos(stores[0].Store.Pos())
	isBaseStr := func(v ssa.Value) bool {
		e := pv.Of(v)
		return e.Op == "field" && p.isWrappedFieldName(e.Name) && e.Args[0].Op == "param" && e.Args[0].Idx == 0
	}
	// result = url' + fragment
	bo, ok := stores[0].Store.Val.(*ssa.BinOp)
	if !ok || bo.Op != token.ADD {
		r.Viol("C13.R6", cn+"#result", pos, "result is not url + fragment", "")
		return
	}
	// fragment = phi("", base[i:]) with i = IndexByte(base,'#'), guarded i != -1
	fragOK, urlOK := false, false
	var urlNoFrag ssa.Value
	if ph, ok := bo.Y.(*ssa.Phi); ok {
		n := 0
		for i, e := range ph.Edges {
			if k, ok := constString(e); ok && k == "" {
				n++
				continue
			}
			if sl, ok := e.(*ssa.Slice); ok && isBaseStr(sl.X) && sl.High == nil {
				if ic, ok := isCallTo(sl.Low, "strings.IndexByte"); ok && isBaseStr(ic.Common().Args[0]) {
					if k, ok := constInt(ic.Common().Args[1]); ok && k == '#' {
						// guard on the edge
						for _, g := range EdgeGuards(ph.Block().Preds[i], ph.Block()) {
							if gb, ok := g.Cond.(*ssa.BinOp); ok && gb.X == ssa.Value(ic) {
								if kk, ok := constInt(gb.Y); ok && kk == -1 && ((gb.Op == token.NEQ && g.Pol) || (gb.Op == token.EQL && !g.Pol)) {
									n += 10
								}
							}
						}
						// companion: url = base[:i]
						for _, in := range ph.Block().Instrs {
							if up, ok := in.(*ssa.Phi); ok && up != ph {
								for _, ue := range up.Edges {
									if usl, ok := ue.(*ssa.Slice); ok && isBaseStr(usl.X) && usl.Low == nil && usl.High == ssa.Value(ic) {
										urlNoFrag = up
									}
								}
							}
						}
					}
				}
			}
		}
		fragOK = n == 11 && len(ph.Edges) == 2
	}
	r.Check(fragOK && urlNoFrag != nil, "C13.R6", cn+"#fragment", pos, "the URL is split at its first '#'; the fragment is re-appended last, unchanged", "fragment is not split at the first '#' and re-appended last")
	// url' = phi(url, url + (sep + Join(sorted, "&")))
	var joinCall *ssa.Call
	var sepVal ssa.Value
	if ph, ok := bo.X.(*ssa.Phi); ok && urlNoFrag != nil {
		a, b := 0, 0
		for _, e := range ph.Edges {
			if e == urlNoFrag {
				a++
				continue
			}
			if add, ok := e.(*ssa.BinOp); ok && add.Op == token.ADD && add.X == urlNoFrag {
				if add2, ok := add.Y.(*ssa.BinOp); ok && add2.Op == token.ADD {
					if jc, ok := isCallTo(add2.Y, "strings.Join"); ok {
						joinCall = jc
						sepVal = add2.X
						b++
					}
				}
			}
		}
		urlOK = a == 1 && b == 1
	}
	r.Check(urlOK, "C13.R6", cn+"#query", pos, "url is left unchanged or extended by separator + joined parameters (authority, path and existing query are a prefix of the result)", "the part before the fragment is not url or url + sep + joined parameters")
	if joinCall == nil {
		return
	}
	// sorted before join, same slice, "&"
	list := joinCall.Common().Args[0]
	sorted := false
	for _, in := range joinCall.Block().Instrs {
		if sc, ok := isCallTo2(in, "sort.Strings"); ok && sc.Common().Args[0] == list && before(sc, joinCall) {
			sorted = true
		}
	}
	amp, _ := constString(joinCall.Common().Args[1])
	r.Check(sorted && amp == "&", "C13.R6", cn+"#sorted", p.Pos(joinCall.Pos()), "the pairs are sorted before being joined with '&' (independent of map iteration order)", "pairs are joined without being sorted first, or not with '&'")
	// every element appended to the list is QE(k) + "=" + QE(v) under k != "" and v != ""
	nApp := 0
	for _, b := range fn.Blocks {
		for _, in := range b.Instrs {
			ap, ok := in.(*ssa.Call)
			if !ok {
				continue
			}
			if bi, ok := ap.Common().Value.(*ssa.Builtin); !ok || bi.Name() != "append" {
				continue
			}
			nApp++
			elems, ok := variadicArgs(ap.Common().Args[1])
			okEl := false
			var kv [2]ssa.Value
			if ok && len(elems) == 1 {
				if add, ok := elems[0].(*ssa.BinOp); ok && add.Op == token.ADD {
					if add1, ok := add.X.(*ssa.BinOp); ok && add1.Op == token.ADD {
						eq, _ := constString(add1.Y)
						k, ok1 := queryEscapeOf(add1.X)
						v, ok2 := queryEscapeOf(add.Y)
						if eq == "=" && ok1 && ok2 {
							ek, okk := k.(*ssa.Extract)
							ev, okv := v.(*ssa.Extract)
							if okk && okv && ek.Tuple == ev.Tuple && ek.Index == 1 && ev.Index == 2 {
								if nx, ok := ek.Tuple.(*ssa.Next); ok {
									if rg, ok := nx.Iter.(*ssa.Range); ok && rg.X == ssa.Value(fn.Params[1]) {
										okEl = true
										kv = [2]ssa.Value{k, v}
									}
								}
							}
						}
					}
				}
			}
			r.Check(okEl, "C13.R6", cn+"#pair", p.Pos(ap.Pos()), "each pair is QueryEscapeURL(key) + \"=\" + QueryEscapeURL(value) of a map entry", "a parameter is added without both key and value passing QueryEscapeURL")
			if okEl {
				nonEmpty := 0
				for _, a := range pv.Atoms(ap.Block()) {
					e := a.E
					if !a.Pol && e.Op == "binop" && e.Name == "==" {
						if k, ok := e.Args[1].IsConstString(); ok && k == "" && (e.Args[0].Val == kv[0] || e.Args[0].Val == kv[1]) {
							nonEmpty++
						}
					}
				}
				r.Check(nonEmpty == 2, "C13.R6", cn+"#skip-empty", p.Pos(ap.Pos()), "entries with an empty key or value are skipped", "empty keys or values are not skipped")
			}
		}
	}
	if nApp == 0 {
		r.Undec("C13.R6", cn+"#pair", pos, "no parameter is ever added")
	}
	// separator: phi of constants chosen by the position of the first '?'
	sepOK := false
	if ph, ok := sepVal.(*ssa.Phi); ok && len(ph.Edges) == 3 {
		got := map[string]string{}
		for i, e := range ph.Edges {
			k, ok := constString(e)
			if !ok {
				continue
			}
			// classify the edge by the guards of its predecessor
			cls := "?"
			for _, g := range EdgeGuards(ph.Block().Preds[i], ph.Block()) {
				gb, ok := g.Cond.(*ssa.BinOp)
				if !ok {
					continue
				}
				if ic, ok := isCallTo(gb.X, "strings.IndexRune"); ok {
					if q, ok := constInt(ic.Common().Args[1]); ok && q == '?' && ic.Common().Args[0] == urlNoFrag {
						if kk, ok := constInt(gb.Y); ok && kk == -1 {
							found := (gb.Op == token.NEQ) == g.Pol
							if !found {
								cls = "absent"
							} else if cls == "?" {
								cls = "present"
							}
						} else if cls != "absent" {
							// i == len(url)-1
							if (gb.Op == token.EQL) == g.Pol {
								cls = "last"
							} else {
								cls = "inner"
							}
						}
					}
				}
			}
			got[cls] = k
		}
		sepOK = got["absent"] == "?" && got["last"] == "" && got["inner"] == "&"
		if _, has := got["last"]; !has {
			sepOK = false
		}
	}
	r.Check(sepOK, "C13.R6", cn+"#separator", pos, "separator is \"?\" without a query, \"\" after a trailing '?', \"&\" otherwise", "separator choice does not follow the position of the first '?'")
	_ = strings.Join
}

func isCallTo2(in ssa.Instruction, full string) (*ssa.Call, bool) {
	c, ok := in.(*ssa.Call)
	if !ok {
		return nil, false
	}
	f := staticCallee(c.Common())
	if f == nil || fnName(f) != full {
		return nil, false
	}
	return c, true
}

// assumeOnTerm: the formula f under the assumption that the string variable #key lies in S: every atom about that
// variable whose language contains S is replaced by true, every atom whose language is disjoint from S by false;
// atoms that S does not decide become unknown.
func assumeOnTerm(L *Lang, f *Form, key int, S *relang.DFA) *Form {
	switch f.Op {
	case "atom":
		if f.Atom.Kind == "prop" || f.Atom.Term.Key() != key {
			return f
		}
		d, amb, err := L.Eval(f)
		if err != nil || len(amb) > 0 {
			return fUnknown("atom not evaluable under the assumption")
		}
		if ok, _ := relang.Subset(S, d); ok {
			return fTrue()
		}
		if ok, _ := relang.Disjoint(S, d); ok {
			return fFalse()
		}
		return fUnknown("not decided by the assumption: " + f.Atom.Desc)
	case "and", "or", "not", "over", "over2":
		subs := make([]*Form, len(f.Sub))
		for i, s := range f.Sub {
			subs[i] = assumeOnTerm(L, s, key, S)
		}
		return &Form{Op: f.Op, Sub: subs, Atom: f.Atom, Why: f.Why, In: f.In}
	}
	return f
}

// substCells: how the replacement function handed to ReplaceAllStringFunc reaches the two pieces of state it shares
// with the formatter — the argument map and the error it records — whether they are variables captured by a
// function literal or fields of a struct whose method is passed as a bound method value.
type substCells struct {
	cl        *ssa.Function // the body that computes the replacement
	match     ssa.Value     // its parameter: the marker
	isArgs    func(addr ssa.Value) bool
	isErr     func(addr ssa.Value) bool
	errProp   string                 // the name of the proposition "the recorded error is nil" in the formatter
	isErrLoad func(v ssa.Value) bool // v, in the formatter, reads the recorded error
}

var substCellsCache = map[*ssa.Function]*substCells{}

func substErrProp(formatter *ssa.Function) string {
	if c := substitutionCells(formatter); c != nil {
		return c.errProp
	}
	return "nil(err)"
}

func substitutionCells(formatter *ssa.Function) *substCells {
	if c, ok := substCellsCache[formatter]; ok {
		return c
	}
	substCellsCache[formatter] = nil
	var mc *ssa.MakeClosure
	for _, b := range formatter.Blocks {
		for _, in := range b.Instrs {
			if c, ok := in.(*ssa.Call); ok {
				if g := staticCallee(c.Common()); g != nil && fnName(g) == "(*regexp.Regexp).ReplaceAllStringFunc" && len(c.Common().Args) == 3 {
					if m, ok := c.Common().Args[2].(*ssa.MakeClosure); ok {
						if mc != nil {
							return nil
						}
						mc = m
					}
				}
			}
		}
	}
	if mc == nil {
		return nil
	}
	isErrPtr := func(t types.Type) bool {
		pt, ok := t.Underlying().(*types.Pointer)
		return ok && isErrorType(pt.Elem())
	}
	cl := mc.Fn.(*ssa.Function)
	if strings.HasPrefix(cl.Synthetic, "bound method wrapper") && len(mc.Bindings) == 1 {
		// method value: the state lives in the fields of the receiver
		var method *ssa.Function
		for _, b := range cl.Blocks {
			for _, in := range b.Instrs {
				if c, ok := in.(*ssa.Call); ok {
					method = staticCallee(c.Common())
				}
			}
		}
		recvAlloc, ok := mc.Bindings[0].(*ssa.Alloc)
		if method == nil || method.Blocks == nil || len(method.Params) != 2 || !ok {
			return nil
		}
		st, ok := recvAlloc.Type().Underlying().(*types.Pointer).Elem().Underlying().(*types.Struct)
		if !ok {
			return nil
		}
		argsField, errField := -1, -1
		for i := 0; i < st.NumFields(); i++ {
			if isErrorType(st.Field(i).Type()) {
				if errField >= 0 {
					return nil
				}
				errField = i
			}
		}
		for _, ref := range *recvAlloc.Referrers() {
			if fa, ok := ref.(*ssa.FieldAddr); ok {
				for _, r2 := range *fa.Referrers() {
					if s2, ok := r2.(*ssa.Store); ok && s2.Addr == ssa.Value(fa) && s2.Val == ssa.Value(formatter.Params[1]) {
						argsField = fa.Field
					}
				}
			}
		}
		if argsField < 0 || errField < 0 {
			return nil
		}
		recv := ssa.Value(method.Params[0])
		fieldOfRecv := func(addr ssa.Value, field int) bool {
			fa, ok := addr.(*ssa.FieldAddr)
			return ok && fa.X == recv && fa.Field == field
		}
		c := &substCells{cl: method, match: method.Params[1],
			isArgs:  func(a ssa.Value) bool { return fieldOfRecv(a, argsField) },
			isErr:   func(a ssa.Value) bool { return fieldOfRecv(a, errField) },
			errProp: "nil(" + recvAlloc.Comment + "." + st.Field(errField).Name() + ")",
			isErrLoad: func(v ssa.Value) bool {
				u, ok := v.(*ssa.UnOp)
				if !ok || u.Op != token.MUL {
					return false
				}
				fa, ok := u.X.(*ssa.FieldAddr)
				return ok && fa.X == ssa.Value(recvAlloc) && fa.Field == errField
			}}
		substCellsCache[formatter] = c
		return c
	}
	if len(cl.Params) != 1 {
		return nil
	}
	var fvArgs, fvErr *ssa.FreeVar
	var errAlloc *ssa.Alloc
	for i, fv := range cl.FreeVars {
		if al, ok := mc.Bindings[i].(*ssa.Alloc); ok {
			if st := singleStoreLoose(al); st != nil && st.Val == ssa.Value(formatter.Params[1]) {
				fvArgs = fv
			} else if isErrPtr(al.Type()) {
				if fvErr != nil {
					return nil
				}
				fvErr, errAlloc = fv, al
			}
		}
	}
	if fvArgs == nil || fvErr == nil {
		return nil
	}
	c := &substCells{cl: cl, match: cl.Params[0],
		isArgs:  func(a ssa.Value) bool { return a == ssa.Value(fvArgs) },
		isErr:   func(a ssa.Value) bool { return a == ssa.Value(fvErr) },
		errProp: "nil(" + errAlloc.Comment + ")",
		isErrLoad: func(v ssa.Value) bool {
			u, ok := v.(*ssa.UnOp)
			return ok && u.Op == token.MUL && u.X == ssa.Value(errAlloc)
		}}
	substCellsCache[formatter] = c
	return c
}
