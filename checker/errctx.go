package main

import (
	"fmt"
	"go/constant"
	"go/types"
	"sort"
	"strings"

	"golang.org/x/tools/go/ssa"
)

// contextFieldsReadBeforeDispatch: the fields of context that the text scanner
// (contextAfterText and the helpers it calls statically with the context) reads
// without first dispatching on the state. An error context is "absorbing" only
// if none of that code can replace it, and that code is driven by these fields.
func contextFieldsReadBeforeDispatch(p *Program) (map[string]bool, []string) {
	entry := p.Func("template", "contextAfterText")
	if entry == nil {
		return nil, nil
	}
	fields := map[string]bool{}
	var fns []string
	seen := map[*ssa.Function]bool{}
	var visit func(fn *ssa.Function, depth int)
	visit = func(fn *ssa.Function, depth int) {
		if fn == nil || fn.Blocks == nil || seen[fn] || depth > 2 {
			return
		}
		seen[fn] = true
		fns = append(fns, strings.TrimPrefix(fnName(fn), pkgTemplate+"."))
		for _, b := range fn.Blocks {
			for _, in := range b.Instrs {
				switch x := in.(type) {
				case *ssa.Field:
					if isNamed(x.X.Type(), pkgTemplate, "context") {
						fields[fieldName(x.X.Type(), x.Field)] = true
					}
				case *ssa.FieldAddr:
					if pt, ok := x.X.Type().Underlying().(*types.Pointer); ok && isNamed(pt.Elem(), pkgTemplate, "context") {
						fields[fieldName(x.X.Type(), x.Field)] = true
					}
				case *ssa.Call:
					g := staticCallee(x.Common())
					if g == nil || g.Pkg != fn.Pkg {
						continue
					}
					for _, a := range x.Common().Args {
						if isNamed(a.Type(), pkgTemplate, "context") {
							visit(g, depth+1)
							break
						}
					}
				}
			}
		}
	}
	visit(entry, 0)
	delete(fields, "state")
	delete(fields, "err")
	sort.Strings(fns)
	return fields, fns
}

// checkErrorContextsCanonical: the error state is infectious because (a) tError keeps
// it and (b) the state-independent part of the text scanner — the search for the end
// tag of a raw-text element, the end of a delimited attribute value — does nothing on
// an error context. (b) holds only while error contexts carry none of the fields that
// code looks at: a `</textarea` after an error context that kept element=textarea
// would yield the zero (text, no error) context and the refused action would be
// committed without a sanitizer. Every context built with state stateError must
// therefore leave those fields zero.
func checkErrorContextsCanonical(p *Program, r *Report, rule string) {
	tpk := p.Pkg("template")
	stObj := tpk.Types.Scope().Lookup("state")
	if stObj == nil {
		r.Undec(rule, "template.state", "", "anchor not found")
		return
	}
	var errVal int64 = -1
	for v, n := range ConstNames(tpk, stObj.Type()) {
		if n == "stateError" {
			errVal = v
		}
	}
	live, fns := contextFieldsReadBeforeDispatch(p)
	if errVal < 0 || live == nil {
		r.Undec(rule, "template.stateError/contextAfterText", "", "anchor not found")
		return
	}
	var liveNames []string
	for f := range live {
		liveNames = append(liveNames, f)
	}
	sort.Strings(liveNames)
	perFn := map[string]int{}
	for _, fn := range p.SrcFuncs() {
		if fn.Pkg == nil || fn.Pkg.Pkg != tpk.Types || fn.Blocks == nil {
			continue
		}
		for _, b := range fn.Blocks {
			for _, in := range b.Instrs {
				st, ok := in.(*ssa.Store)
				if !ok {
					continue
				}
				fa, ok := st.Addr.(*ssa.FieldAddr)
				if !ok || fieldName(fa.X.Type(), fa.Field) != "state" {
					continue
				}
				pt, ok := fa.X.Type().Underlying().(*types.Pointer)
				if !ok || !isNamed(pt.Elem(), pkgTemplate, "context") {
					continue
				}
				k, ok := st.Val.(*ssa.Const)
				if !ok || k.Value == nil || k.Value.Kind() != constant.Int {
					continue
				}
				if kv, _ := constant.Int64Val(k.Value); kv != errVal {
					continue
				}
				short := strings.TrimPrefix(fnName(fn), pkgTemplate+".")
				perFn[short]++
				cn := fmt.Sprintf("%s#error-context%d", short, perFn[short])
				pos := p.Pos(st.Pos())
				al, ok := fa.X.(*ssa.Alloc)
				if !ok {
					r.Undec(rule, cn, pos, "the error state is stored into a context that is not a local value; its other fields are not known")
					continue
				}
				// the construction region: from the last whole-value store to the local in this
				// block (the zero value when a literal is built in place) to the next one
				var kept []string
				copied, fresh := false, false
				idx := -1
				for i, in2 := range b.Instrs {
					if in2 == in {
						idx = i
					}
				}
				start := 0
				for i := idx; i >= 0 && !fresh && !copied; i-- {
					switch x := b.Instrs[i].(type) {
					case *ssa.Alloc:
						if x == al {
							fresh, start = true, i
						}
					case *ssa.Store:
						if x.Addr == ssa.Value(al) {
							if c, isC := x.Val.(*ssa.Const); isC && c.Value == nil {
								fresh, start = true, i
							} else {
								copied, start = true, i
							}
						}
					}
				}
				if !fresh && !copied {
					r.Undec(rule, cn, pos, "the error state is stored into a context whose other fields were set elsewhere")
					continue
				}
				for i := start + 1; i < len(b.Instrs); i++ {
					x, ok := b.Instrs[i].(*ssa.Store)
					if !ok {
						continue
					}
					if x.Addr == ssa.Value(al) {
						break
					}
					root := x.Addr
					for {
						f2, ok := root.(*ssa.FieldAddr)
						if !ok {
							break
						}
						if f2.X == ssa.Value(al) {
							if f := fieldName(al.Type(), f2.Field); live[f] {
								kept = append(kept, f)
							}
							break
						}
						root = f2.X
					}
				}
				sort.Strings(kept)
				switch {
				case copied:
					r.Viol(rule, cn, pos, "an error context is made by overwriting the state of a copied live context: it keeps the fields ("+strings.Join(liveNames, ", ")+") that "+strings.Join(fns, ", ")+" act on before dispatching on the state, so later template text can replace the error context", `<textarea rows={{.R}}>{{.T}}</textarea>`)
				case len(kept) > 0:
					r.Viol(rule, cn, pos, "an error context carries "+strings.Join(kept, ", ")+": "+strings.Join(fns, ", ")+" act on that field before dispatching on the state, so later template text (the end tag of a raw-text element, the end of an attribute value) replaces the error context with a valid one and the analysis succeeds", `<textarea rows={{.R}}>{{.T}}</textarea>`)
				default:
					r.OK(rule, cn, pos, "carries none of ["+strings.Join(liveNames, " ")+"]")
				}
			}
		}
	}
}
