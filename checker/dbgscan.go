package main

import (
	"fmt"
	"os"
)

func init() {
	register("DBGSCAN", "other", func(p *Program, r *Report) {
		fn := p.Func(os.Getenv("DBG_PKG"), os.Getenv("DBG_FN"))
		if fn == nil {
			fmt.Println("not found")
			return
		}
		debugScan = true
		loops, ok := findScanLoops(p, fn)
		fmt.Println("canonical:", ok, "loops:", len(loops))
		for _, l := range loops {
			fmt.Printf("loop header=%d exit=%d start=%d byRune=%v str=%s cont=%s\n", l.Header.Index, l.Exit.Index, l.Start, l.ByRune, l.Str, l.Cont)
			for f, m := range l.Early {
				for t, s := range m {
					fmt.Printf("   early %d->%d on %s\n", f.Index, t.Index, s)
				}
			}
		}
	})
}
