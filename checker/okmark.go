package main

import (
	"strings"

	"golang.org/x/tools/go/ssa"
)

// checkEscapedMarkOnlyForAnalysed (C05): a template is marked as successfully escaped (escapeErr = errEscapeOK)
// only by the function that analysed it, for the template whose analysis just ended — never wholesale for the
// templates met on the way (a callee that ends inside a tag or attribute has a clean record as a callee but must
// keep failing when executed on its own).
func checkEscapedMarkOnlyForAnalysed(p *Program, r *Report, rule string) {
	tsp := p.SSAPkg("template")
	n := 0
	for _, f := range p.SrcFuncs() {
		if f.Pkg != tsp && !(f.Parent() != nil && f.Parent().Pkg == tsp) {
			continue
		}
		short := strings.TrimPrefix(fnName(f), pkgTemplate+".")
		for _, st := range storesToField(f, pkgTemplate, "Template", "escapeErr") {
			u, ok := st.Val.(*ssa.UnOp)
			if !ok {
				continue
			}
			g, ok := u.X.(*ssa.Global)
			if !ok || cname(g) != "errEscapeOK" {
				continue
			}
			n++
			cn := short + "#marks-escaped"
			pos := p.Pos(st.Pos())
			fa := st.Addr.(*ssa.FieldAddr)
			// the template marked: set[name] with name a string parameter of the function (the template analysed)
			okTarget := false
			base := fa.X
			if ex, isEx := base.(*ssa.Extract); isEx {
				base = ex.Tuple
			}
			if lk, isLk := base.(*ssa.Lookup); isLk {
				if prm, isP := lk.Index.(*ssa.Parameter); isP && isStringish(prm.Type()) {
					okTarget = true
				}
			}
			if prm, isP := base.(*ssa.Parameter); isP && isOurTmplPtr(prm.Type()) {
				okTarget = true
			}
			inLoop := false
			for _, b := range f.Blocks {
				for _, su := range b.Succs {
					if su.Dominates(b) && su.Dominates(st.Block()) && blockReaches(st.Block(), b) {
						inLoop = true
					}
				}
			}
			switch {
			case inLoop:
				r.Viol(rule, cn, pos, "templates are marked as escaped in a loop: a template that was only analysed as a callee (and may end inside a tag or attribute) becomes executable on its own", `{{define "F"}}<b title="{{.}}"{{end}} executed after a caller of F has been executed`)
			case !okTarget:
				r.Viol(rule, cn, pos, "the template marked as escaped is not the one named by the function's parameter (the one whose analysis just ended)", "")
			default:
				r.OK(rule, cn, pos, "marks the template whose analysis just ended, once")
			}
		}
	}
	if n == 0 {
		r.Undec(rule, "template#marks-escaped", "", "no store of errEscapeOK found")
	}
}
