package main

import (
	"strings"

	"golang.org/x/tools/go/ssa"
)

// checkEscapedMarkOnlyForAnalysed (C05): a template is marked as successfully escaped (escapeErr = errEscapeOK)
// only by the function that analysed it, for the template whose analysis just ended — never wholesale for the
// templates met on the way (a callee that ends inside a tag or attribute has a clean record as a callee but must
// keep failing when executed on its own).
func checkEscapedMarkOnlyForAnalysed(p *Program, r *Report, rule string) {
	ts := discoverTmplStatus(p)
	if ts.problem != "" {
		r.Undec(rule, "template#marks-escaped", "", "the record of a successful analysis was not identified: "+ts.problem)
		return
	}
	root := p.Func("template", "escapeTemplate")
	// the stores that give the record its success value
	var marks []*ssa.Store
	for _, st := range ts.allStores {
		f, _ := ts.statusFieldAddr(st.Addr)
		v := ts.eval(st.Val, nil, nil, 0)
		if v.kind == symUnknown || (v == ts.ok[f] && v != ts.fresh[f]) {
			marks = append(marks, st)
		}
	}
	// targetOK: the template written through base (in f) is the one named by a string parameter of the root
	// analysis (looked up in the set), or the root analysis's own template parameter
	var targetOK func(f *ssa.Function, base ssa.Value, depth int) bool
	targetOK = func(f *ssa.Function, base ssa.Value, depth int) bool {
		if depth > 3 {
			return false
		}
		if ex, isEx := base.(*ssa.Extract); isEx {
			base = ex.Tuple
		}
		if lk, isLk := base.(*ssa.Lookup); isLk {
			if prm, isP := lk.Index.(*ssa.Parameter); isP && isStringish(prm.Type()) {
				return true
			}
			return false
		}
		prm, isP := base.(*ssa.Parameter)
		if !isP || !isOurTmplPtr(prm.Type()) {
			return false
		}
		if f == root {
			return true
		}
		// a helper that marks the template handed to it: every caller must hand in the analysed one
		idx := -1
		for i, q := range f.Params {
			if q == prm {
				idx = i
			}
		}
		sites := 0
		for _, g := range p.SrcFuncs() {
			for _, b := range g.Blocks {
				for _, in := range b.Instrs {
					c, ok := in.(ssa.CallInstruction)
					if !ok || staticCallee(c.Common()) != f || idx < 0 || idx >= len(c.Common().Args) {
						continue
					}
					sites++
					if !targetOK(g, c.Common().Args[idx], depth+1) {
						return false
					}
				}
			}
		}
		return sites > 0
	}
	n := 0
	for _, st := range marks {
		f := st.Parent()
		short := strings.TrimPrefix(fnName(f), pkgTemplate+".")
		n++
		cn := short + "#marks-escaped"
		pos := p.Pos(st.Pos())
		fa := st.Addr.(*ssa.FieldAddr)
		okTarget := targetOK(f, fa.X, 0)
		inLoop := false
		for _, b := range f.Blocks {
			for _, su := range b.Succs {
				if su.Dominates(b) && su.Dominates(st.Block()) && blockReaches(st.Block(), b) {
					inLoop = true
				}
			}
		}
		switch {
		case inLoop:
			r.Viol(rule, cn, pos, "templates are marked as escaped in a loop: a template that was only analysed as a callee (and may end inside a tag or attribute) becomes executable on its own", `{{define "F"}}<b title="{{.}}"{{end}} executed after a caller of F has been executed`)
		case !okTarget:
			r.Viol(rule, cn, pos, "the template marked as escaped is not the one named by the function's parameter (the one whose analysis just ended)", "")
		default:
			r.OK(rule, cn, pos, "marks the template whose analysis just ended, once")
		}
	}
	if n == 0 {
		r.Undec(rule, "template#marks-escaped", "", "no store that records a successful analysis found")
	}
}
