package main

import (
	"fmt"
	"go/constant"
	"go/token"
	"strings"

	"golang.org/x/tools/go/ssa"

	"safecheck/relang"
)

// urlProcTables is the byte decision table of safehtmlutil.urlProcessor in
// both modes, extracted from its CFG.
type urlProcTables struct {
	Fn          *ssa.Function
	Leaves      []dtLeaf
	Format      string      // escape format constant
	HexSet      *relang.Set // bytes for which the hex helper returns true
	Problems    []string
	PctTags     []string // tags on the path that copies '%' in norm mode
	ShapeOK     bool
	ShapeDetail string
	// ModeIdx: index of the mode parameter; ModeEscape / ModeNorm: the constants QueryEscapeURL / NormalizeURL pass
	ModeIdx    int
	StrIdx     int
	ModeEscape *ssa.Const
	ModeNorm   *ssa.Const
}

// modeArgOf: the constant mode with which wrapper (QueryEscapeURL, NormalizeURL) calls the processor.
func modeArgOf(p *Program, wrapper string, fn *ssa.Function, modeIdx int) *ssa.Const {
	f := p.Func("internal/safehtmlutil", wrapper)
	if f == nil {
		return nil
	}
	var found *ssa.Const
	n := 0
	for _, b := range f.Blocks {
		for _, in := range b.Instrs {
			if c, ok := in.(*ssa.Call); ok && staticCallee(c.Common()) == fn && modeIdx < len(c.Common().Args) {
				n++
				found, _ = c.Common().Args[modeIdx].(*ssa.Const)
			}
		}
	}
	if n != 1 {
		return nil
	}
	return found
}

// evalModeCond evaluates a condition of the processor that depends on the mode parameter only, for the constant
// mode k: the parameter itself, comparisons with constants, and calls of foldable functions of the module
// (m.keepsReserved()). Nothing is run: consteval folds the SSA of the helpers.
func evalModeCond(p *Program, v ssa.Value, mode ssa.Value, k *ssa.Const, depth int) (cval, bool) {
	return evalModeCondX(p, v, mode, k, depth, nil)
}

// evalModeCondX: as evalModeCond; opaque stands in for values that are not computed from the mode (a pointer to
// the object that holds it, handed to an accessor).
func evalModeCondX(p *Program, v ssa.Value, mode ssa.Value, k *ssa.Const, depth int, opaque func(ssa.Value) (cval, bool)) (cval, bool) {
	if depth > 6 {
		return cval{}, false
	}
	constVal := func(c *ssa.Const) (cval, bool) {
		if c.Value == nil {
			return zeroOf(c.Type())
		}
		switch c.Value.Kind() {
		case constant.Bool:
			return cval{kind: cvBool, b: constant.BoolVal(c.Value)}, true
		case constant.Int:
			n, ok := constant.Int64Val(c.Value)
			return cval{kind: cvInt, i: n}, ok
		case constant.String:
			return cval{kind: cvString, s: constant.StringVal(c.Value)}, true
		}
		return cval{}, false
	}
	if v == mode {
		return constVal(k)
	}
	switch x := v.(type) {
	case *ssa.Const:
		return constVal(x)
	case *ssa.Convert:
		return evalModeCondX(p, x.X, mode, k, depth+1, opaque)
	case *ssa.ChangeType:
		return evalModeCondX(p, x.X, mode, k, depth+1, opaque)
	case *ssa.UnOp:
		if x.Op == token.NOT {
			a, ok := evalModeCondX(p, x.X, mode, k, depth+1, opaque)
			if ok && a.kind == cvBool {
				return cval{kind: cvBool, b: !a.b}, true
			}
		}
	case *ssa.BinOp:
		a, ok1 := evalModeCondX(p, x.X, mode, k, depth+1, opaque)
		b, ok2 := evalModeCondX(p, x.Y, mode, k, depth+1, opaque)
		if !ok1 || !ok2 || a.kind != b.kind {
			return cval{}, false
		}
		var eq, lt bool
		switch a.kind {
		case cvInt:
			eq, lt = a.i == b.i, a.i < b.i
		case cvBool:
			eq = a.b == b.b
			if x.Op != token.EQL && x.Op != token.NEQ {
				return cval{}, false
			}
		case cvString:
			eq, lt = a.s == b.s, a.s < b.s
		default:
			return cval{}, false
		}
		if a.kind == cvInt {
			switch x.Op {
			case token.AND:
				return cval{kind: cvInt, i: wrapInt(a.i&b.i, x.Type())}, true
			case token.OR:
				return cval{kind: cvInt, i: wrapInt(a.i|b.i, x.Type())}, true
			case token.XOR:
				return cval{kind: cvInt, i: wrapInt(a.i^b.i, x.Type())}, true
			case token.AND_NOT:
				return cval{kind: cvInt, i: wrapInt(a.i&^b.i, x.Type())}, true
			}
		}
		switch x.Op {
		case token.EQL:
			return cval{kind: cvBool, b: eq}, true
		case token.NEQ:
			return cval{kind: cvBool, b: !eq}, true
		case token.LSS:
			return cval{kind: cvBool, b: lt}, true
		case token.LEQ:
			return cval{kind: cvBool, b: lt || eq}, true
		case token.GTR:
			return cval{kind: cvBool, b: !lt && !eq}, true
		case token.GEQ:
			return cval{kind: cvBool, b: !lt}, true
		}
	case *ssa.Call:
		g := staticCallee(x.Common())
		if g == nil {
			return cval{}, false
		}
		var args []cval
		for _, a := range x.Common().Args {
			av, ok := evalModeCondX(p, a, mode, k, depth+1, opaque)
			if !ok && opaque != nil {
				av, ok = opaque(a)
			}
			if !ok {
				return cval{}, false
			}
			args = append(args, av)
		}
		f := &folder{p: p}
		res := f.call(g, args)
		if f.fail != "" {
			return cval{}, false
		}
		return res, true
	}
	if opaque != nil {
		return opaque(v)
	}
	return cval{}, false
}

func unreservedSet() *relang.Set {
	return relang.NewSet('A', 'Z', 'a', 'z', '0', '9', '-', '-', '.', '.', '_', '_', '~', '~')
}

func extractURLProcessor(p *Program) (*urlProcTables, error) {
	fn := p.Func("internal/safehtmlutil", "urlProcessor")
	if fn == nil {
		// discover: the common callee of QueryEscapeURL and NormalizeURL
		q := p.Func("internal/safehtmlutil", "QueryEscapeURL")
		if q != nil {
			for _, b := range q.Blocks {
				for _, in := range b.Instrs {
					if c, ok := in.(*ssa.Call); ok {
						if f := staticCallee(c.Common()); f != nil && f.Pkg == q.Pkg && len(f.Params) == 2 {
							fn = f
						}
					}
				}
			}
		}
	}
	if fn == nil {
		return nil, fmt.Errorf("anchor not found: urlProcessor")
	}
	t := &urlProcTables{Fn: fn}
	var norm, str ssa.Value
	for i, prm := range fn.Params {
		if isStringish(prm.Type()) {
			str = prm
			t.StrIdx = i
		} else {
			norm = prm
			t.ModeIdx = i
		}
	}
	if norm == nil || str == nil || len(fn.Params) != 2 {
		return nil, fmt.Errorf("urlProcessor does not have (mode, string) parameters")
	}
	t.ModeEscape = modeArgOf(p, "QueryEscapeURL", fn, t.ModeIdx)
	t.ModeNorm = modeArgOf(p, "NormalizeURL", fn, t.ModeIdx)
	if t.ModeEscape == nil || t.ModeNorm == nil {
		return nil, fmt.Errorf("QueryEscapeURL and NormalizeURL do not each call the processor once with a constant mode")
	}
	// the byte variable: s[i] in the loop body
	var bv *ssa.Index
	for _, b := range fn.Blocks {
		for _, in := range b.Instrs {
			if ix, ok := in.(*ssa.Index); ok && ix.X == str && bv == nil {
				if _, isPhi := ix.Index.(*ssa.Phi); isPhi {
					bv = ix
				}
			}
		}
	}
	if bv == nil {
		return nil, fmt.Errorf("byte variable s[i] not found")
	}
	iPhi := bv.Index.(*ssa.Phi)
	// result buffer
	var buf ssa.Value
	for _, ret := range Returns(fn) {
		if c, ok := ret.Results[0].(*ssa.Call); ok && staticCallee(c.Common()) != nil && fnName(staticCallee(c.Common())) == "(*bytes.Buffer).String" {
			buf = c.Common().Args[0]
		}
	}
	if buf == nil {
		return nil, fmt.Errorf("result buffer not found")
	}
	ems, probs := bufferEmissions(fn, buf)
	t.Problems = append(t.Problems, probs...)
	escBlock := map[*ssa.BasicBlock]bool{}
	var written *ssa.Phi
	for _, e := range ems {
		if e.Kind == "fmt" && len(e.Args) == 1 && e.Args[0] == ssa.Value(bv) {
			escBlock[e.Call.Block()] = true
			t.Format = strings.Join(e.Pieces[:1], "") + e.Verbs[0] + e.Pieces[1]
		}
	}
	// latch = block where i is incremented (an edge value of the i phi)
	latch := map[*ssa.BasicBlock]bool{}
	for _, e := range iPhi.Edges {
		if bo, ok := e.(*ssa.BinOp); ok && bo.Op == token.ADD && bo.X == ssa.Value(iPhi) {
			latch[bo.Block()] = true
		}
	}
	hexFns := map[*ssa.Function]bool{}
	modeConds := map[string]ssa.Value{}
	tagOf := func(cond ssa.Value) string {
		if cond == norm || (dependsOn(cond, norm, 0) && !dependsOn(cond, str, 0)) {
			tag := "mode#" + cond.Name()
			modeConds[tag] = cond
			return tag
		}
		if c, ok := cond.(*ssa.Call); ok {
			if f := staticCallee(c.Common()); f != nil && len(c.Common().Args) == 1 {
				if ix, ok := c.Common().Args[0].(*ssa.Index); ok && ix.X == str {
					if bo, ok := ix.Index.(*ssa.BinOp); ok && bo.Op == token.ADD && bo.X == ssa.Value(iPhi) {
						if k, ok := constInt(bo.Y); ok {
							hexFns[f] = true
							return fmt.Sprintf("hex(s[i+%d])", k)
						}
					}
				}
			}
		}
		if bo, ok := cond.(*ssa.BinOp); ok && bo.Op == token.LSS {
			if l, ok := bo.X.(*ssa.BinOp); ok && l.Op == token.ADD && l.X == ssa.Value(iPhi) {
				if k, ok := constInt(l.Y); ok {
					if c, ok := bo.Y.(*ssa.Call); ok {
						if bi, ok := c.Common().Value.(*ssa.Builtin); ok && bi.Name() == "len" && c.Common().Args[0] == str {
							return fmt.Sprintf("inbounds(i+%d)", k)
						}
					}
				}
			}
		}
		return "?" + cond.String()
	}
	t.Leaves = decisionTable(bv.Block(), dtConfig{Var: bv, Dom: byteDomain(), TagOf: tagOf, Leaf: func(b *ssa.BasicBlock) (string, bool) {
		if escBlock[b] {
			return "escape", true
		}
		if latch[b] {
			return "copy", true
		}
		return "", false
	}})
	// conditions on the mode: each is evaluated for the two constants the wrappers pass; a leaf keeps the tag
	// norm=false / norm=true when it can be reached in one mode only, no tag when in both
	{
		var kept []dtLeaf
		for _, l := range t.Leaves {
			esc, nrm := true, true
			var tags []string
			bad := ""
			for _, tg := range l.Tags {
				i := strings.LastIndex(tg, "=")
				cond, isMode := modeConds[tg[:max(i, 0)]]
				if i < 0 || !isMode {
					tags = append(tags, tg)
					continue
				}
				want := tg[i+1:] == "true"
				ve, ok1 := evalModeCond(p, cond, norm, t.ModeEscape, 0)
				vn, ok2 := evalModeCond(p, cond, norm, t.ModeNorm, 0)
				if !ok1 || !ok2 || ve.kind != cvBool || vn.kind != cvBool {
					bad = "a condition on the mode could not be evaluated for the constants the wrappers pass: " + cond.String()
					continue
				}
				esc = esc && ve.b == want
				nrm = nrm && vn.b == want
			}
			if bad != "" {
				t.Problems = append(t.Problems, bad)
				kept = append(kept, l)
				continue
			}
			switch {
			case esc && !nrm:
				tags = appendTag(tags, "norm=false")
			case nrm && !esc:
				tags = appendTag(tags, "norm=true")
			case !esc && !nrm:
				continue // reachable in neither mode
			}
			l.Tags = tags
			kept = append(kept, l)
		}
		t.Leaves = kept
	}
	// hex helper table
	if len(hexFns) == 1 {
		for f := range hexFns {
			if f.Blocks != nil && len(f.Params) == 1 {
				lv := decisionTable(f.Blocks[0], dtConfig{Var: f.Params[0], Dom: byteDomain(), Leaf: func(b *ssa.BasicBlock) (string, bool) { return "", false }})
				t.HexSet = effectSet(lv, "return:true", nil)
				for _, u := range undecidedLeaves(lv) {
					t.Problems = append(t.Problems, "hex helper: "+u)
				}
				for _, l := range lv {
					if l.Effect == "return" {
						t.Problems = append(t.Problems, "hex helper returns a non-constant on "+l.Set.String())
					}
				}
			}
		}
	}
	// bookkeeping shape: escape block writes s[written:i] then the escape; written' = i+1; tail s[written:] written at the end
	shape := []string{}
	okShape := true
	for b := range escBlock {
		var seq []emission
		for _, e := range ems {
			if e.Call.Block() == b {
				seq = append(seq, e)
			}
		}
		if len(seq) != 2 || seq[0].Kind != "dyn" || seq[1].Kind != "fmt" {
			okShape = false
			shape = append(shape, "escape block does not write [pending slice, escape]")
			continue
		}
		sl, ok := seq[0].Args[0].(*ssa.Slice)
		if !ok || sl.X != str || sl.High != ssa.Value(iPhi) {
			okShape = false
			shape = append(shape, "pending slice is not s[written:i]")
			continue
		}
		w, ok := sl.Low.(*ssa.Phi)
		if !ok {
			okShape = false
			continue
		}
		written = w
	}
	if written != nil {
		// every edge of written (through the latch phi) is written itself, 0, or i+1 from an escape block
		var check func(v ssa.Value, depth int) bool
		check = func(v ssa.Value, depth int) bool {
			if depth > 4 {
				return false
			}
			if v == ssa.Value(written) {
				return true
			}
			if k, ok := constInt(v); ok && k == 0 {
				return true
			}
			if bo, ok := v.(*ssa.BinOp); ok && bo.Op == token.ADD && bo.X == ssa.Value(iPhi) {
				if k, ok := constInt(bo.Y); ok && k == 1 && escBlock[bo.Block()] {
					return true
				}
			}
			if ph, ok := v.(*ssa.Phi); ok {
				for _, e := range ph.Edges {
					if !check(e, depth+1) {
						return false
					}
				}
				return true
			}
			return false
		}
		for _, e := range written.Edges {
			if !check(e, 0) {
				okShape = false
				shape = append(shape, "the 'written' index is updated by something other than i+1 after an escape")
			}
		}
		// tail
		tailOK := false
		for _, e := range ems {
			if e.Kind == "dyn" && !escBlock[e.Call.Block()] {
				if sl, ok := e.Args[0].(*ssa.Slice); ok && sl.X == str && sl.Low == ssa.Value(written) && sl.High == nil {
					tailOK = true
				} else {
					okShape = false
					shape = append(shape, "unexpected dynamic write outside the escape block")
				}
			}
		}
		if !tailOK {
			okShape = false
			shape = append(shape, "the unescaped tail s[written:] is not written")
		}
		// the early return of s itself must be under written == 0
		for _, ret := range Returns(fn) {
			if ret.Results[0] == str {
				g := false
				for _, gd := range GuardsOf(ret.Block()) {
					if bo, ok := gd.Cond.(*ssa.BinOp); ok && gd.Pol && bo.Op == token.EQL && bo.X == ssa.Value(written) {
						if k, ok := constInt(bo.Y); ok && k == 0 {
							g = true
						}
					}
				}
				if !g {
					okShape = false
					shape = append(shape, "input returned unchanged without written == 0")
				}
			}
		}
	} else {
		okShape = false
		shape = append(shape, "bookkeeping index not found")
	}
	t.ShapeOK = okShape
	t.ShapeDetail = strings.Join(shape, "; ")
	return t, nil
}
