package main

import (
	"fmt"
	"go/token"
	"sort"
	"strings"

	"safecheck/relang"

	"golang.org/x/tools/go/ssa"
)

// The tokenisation of one image candidate, whatever the helpers are called and however the
// byte sets are passed: starting from the cursor of the loop, the chain of splitter calls, each
// applied to the rest left by the previous one (wrappers that run part of the chain and hand the
// rest on are followed). Each step is described by the set of bytes it walks over.

type chainStep struct {
	cont *relang.Set
	call *ssa.Call
}

// splitChain follows the cursor v through fn.
func splitChain(p *Program, fn *ssa.Function, v ssa.Value, depth int) ([]chainStep, ssa.Value) {
	var steps []chainStep
	for iter := 0; iter < 16 && depth < 4; iter++ {
		var next ssa.Value
		refs := v.Referrers()
		if refs == nil {
			break
		}
		for _, ref := range *refs {
			call, ok := ref.(*ssa.Call)
			if !ok {
				continue
			}
			g := staticCallee(call.Common())
			if g == nil || g.Blocks == nil || g.Pkg == nil || !strings.HasPrefix(g.Pkg.Pkg.Path(), modulePath) {
				continue
			}
			argIdx := -1
			for i, a := range call.Common().Args {
				if a == v {
					argIdx = i
				}
			}
			if argIdx < 0 {
				continue
			}
			if sum, ok := splitterSummary(p, g, call.Common().Args, fn); ok && sum.Rest >= 0 {
				steps = append(steps, chainStep{sum.Cont, call})
				next = extractOf(call, sum.Rest)
				break
			}
			// a wrapper: runs a chain on its parameter and returns the final rest as one of its results
			if argIdx < len(g.Params) && depth < 3 {
				inner, last := splitChain(p, g, g.Params[argIdx], depth+1)
				if len(inner) == 0 || last == nil {
					continue
				}
				restIdx := -1
				for _, ret := range Returns(g) {
					for k, rv := range ret.Results {
						if rv == last {
							if restIdx >= 0 && restIdx != k {
								restIdx = -2
							}
							if restIdx != -2 {
								restIdx = k
							}
						}
					}
				}
				if restIdx >= 0 {
					steps = append(steps, inner...)
					next = extractOf(call, restIdx)
					break
				}
			}
		}
		if next == nil {
			break
		}
		v = next
	}
	return steps, v
}

func extractOf(call *ssa.Call, idx int) ssa.Value {
	for _, ref := range *call.Referrers() {
		if ex, ok := ref.(*ssa.Extract); ok && ex.Index == idx {
			return ex
		}
	}
	return nil
}

func byteSetString(s *relang.Set) string {
	var xs []string
	for c := 0; c < 256; c++ {
		if s.Contains(rune(c)) {
			xs = append(xs, fmt.Sprintf("%02x", c))
		}
	}
	if len(xs) > 12 {
		return fmt.Sprintf("%d bytes", len(xs))
	}
	return "{" + strings.Join(xs, " ") + "}"
}

// checkTokenChainBySets decides the tokenisation clauses (rule R1) from the byte sets:
// one candidate = walk over ws, over non-ws (the URL), over ws, over non-ws-non-comma (the
// descriptor), over ws; the next candidate starts after exactly one ','.
func checkTokenChainBySets(p *Program, r *Report) bool {
	const cn = "safehtml.URLSetSanitized"
	fn := p.Func("", "URLSetSanitized")
	if fn == nil {
		r.Undec("C12.R1", cn, "", "anchor not found")
		return false
	}
	// the cursor: a phi of the string parameter at a loop header
	var cursor *ssa.Phi
	for _, b := range fn.Blocks {
		for _, in := range b.Instrs {
			ph, ok := in.(*ssa.Phi)
			if !ok || !isStringish(ph.Type()) {
				continue
			}
			for _, e := range ph.Edges {
				if e == ssa.Value(fn.Params[0]) {
					cursor = ph
				}
			}
		}
	}
	if cursor == nil {
		r.Undec("C12.R1", cn+"#token-chain", p.Pos(fn.Pos()), "no loop cursor over the input found")
		return false
	}
	steps, last := splitChain(p, fn, cursor, 0)
	ws := relang.SetOfString("\t\n\f\r ")
	wsComma := relang.SetOfString("\t\n\f\r ,")
	bytes := byteDomain()
	want := []*relang.Set{ws, bytes.Minus(ws), ws, bytes.Minus(wsComma), ws}
	names := []string{"ASCII whitespace", "everything but ASCII whitespace (the URL)", "ASCII whitespace", "everything but ASCII whitespace and ',' (the descriptor)", "ASCII whitespace"}
	var got []string
	for _, s := range steps {
		got = append(got, byteSetString(s.cont))
	}
	ok := len(steps) == len(want)
	for i := range want {
		if ok && steps[i].cont.String() != want[i].String() {
			ok = false
		}
	}
	pos := p.Pos(fn.Pos())
	if len(steps) > 0 {
		pos = p.Pos(steps[0].call.Pos())
	}
	if ok {
		r.OK("C12.R1", cn+"#token-chain", pos, "candidate = the cursor is walked over "+strings.Join(names, "; then ")+", each step on the rest of the previous")
		for i := range want {
			r.OK("C12.R1", fmt.Sprintf("%s#table%d", cn, i), p.Pos(steps[i].call.Pos()), "byte set of step "+fmt.Sprint(i)+" = "+names[i])
		}
	} else {
		r.Viol("C12.R1", cn+"#token-chain", pos, fmt.Sprintf("the tokenising chain walks over %v, not over ws / non-ws / ws / non-ws-non-comma / ws", got), "")
		return false
	}
	// continuation: every value that flows back into the cursor is last[1:] under last[0] == ',';
	// the unchanged rest may flow back only on the false side of a flag that the loop header tests next
	contOK := true
	why := ""
	n := 0
	h := cursor.Block()
	var headerFlag *ssa.Phi
	if iff, ok := h.Instrs[len(h.Instrs)-1].(*ssa.If); ok {
		headerFlag, _ = iff.Cond.(*ssa.Phi)
		if headerFlag != nil && headerFlag.Block() != h {
			headerFlag = nil
		}
	}
	advance := func(v ssa.Value) bool {
		x, ok := v.(*ssa.Slice)
		if !ok {
			return false
		}
		lo, okLo := constInt(x.Low)
		return x.X == last && okLo && lo == 1 && x.High == nil && edgeByteGuardPhi(x.Block(), last, true) == ","
	}
	for i, e := range cursor.Edges {
		if e == ssa.Value(fn.Params[0]) {
			continue
		}
		switch {
		case advance(e):
			n++
		case e == last:
			if ok, w := wrapperAdvances(p, last, cursor.Block().Preds[i], cursor.Block()); ok {
				n++
			} else {
				contOK, why = false, "the loop can continue without having skipped a ','"+w
			}
		default:
			j, isPhi := e.(*ssa.Phi)
			if !isPhi {
				contOK, why = false, "the cursor is set to "+e.String()
				break
			}
			for k, ek := range j.Edges {
				pk := j.Block().Preds[k]
				switch {
				case advance(ek):
					n++
				case ek == last:
					// unchanged: only on the false side of a flag M, and the header tests M on this back edge
					iff, ok := pk.Instrs[len(pk.Instrs)-1].(*ssa.If)
					okFlag := ok && pk.Succs[1] == j.Block() && pk.Succs[0] != j.Block() && headerFlag != nil && i < len(headerFlag.Edges) && headerFlag.Edges[i] == iff.Cond
					if !okFlag {
						contOK, why = false, "the unchanged rest flows back into the loop without a flag that ends it"
					}
				default:
					contOK, why = false, "the cursor is set to "+ek.String()
				}
			}
		}
	}
	r.Check(contOK && n > 0, "C12.R1", cn+"#continuation", p.Pos(fn.Pos()), "the next candidate starts after exactly one ',' following the previous one", "loop continuation is not 'rest[0]==',' then rest[1:]': "+why)
	sort.Strings(got)
	return contOK && n > 0
}

// edgeByteGuardPhi is edgeByteGuard that also sees through a boolean flag: `more := s[0] == ','; if more { … }`.
func edgeByteGuardPhi(b *ssa.BasicBlock, x ssa.Value, front bool) string {
	if k := edgeByteGuard(b, x, front); k != "" {
		return k
	}
	for d := b; d != nil; d = d.Idom() {
		id := d.Idom()
		if id == nil {
			break
		}
		iff, ok := id.Instrs[len(id.Instrs)-1].(*ssa.If)
		if !ok || !(id.Succs[0].Dominates(b) && !id.Succs[1].Dominates(b)) {
			continue
		}
		ph, ok := iff.Cond.(*ssa.Phi)
		if !ok {
			continue
		}
		// every edge that can be true is the byte test
		k := ""
		okAll := true
		for i, e := range ph.Edges {
			if bv, isK := constBool(e); isK {
				if bv {
					okAll = false
				}
				continue
			}
			bo, isB := e.(*ssa.BinOp)
			if !isB || bo.Op != token.EQL {
				okAll = false
				continue
			}
			kk, okk := constInt(bo.Y)
			var base, idx ssa.Value
			switch y := bo.X.(type) {
			case *ssa.Index:
				base, idx = y.X, y.Index
			case *ssa.Lookup:
				base, idx = y.X, y.Index
			}
			z, okz := constInt(idx)
			if !okk || base != x || !okz || z != 0 || kk < 0 || kk >= 0x80 {
				okAll = false
				continue
			}
			_ = i
			k = string(rune(kk))
		}
		if okAll && k != "" {
			return k
		}
	}
	return ""
}

// wrapperAdvances: the rest is result #k of a helper that runs the chain and also reports, as a boolean result #m,
// whether it skipped a ','; the edge pred→header is taken only when that flag is true, and in the helper every
// return whose flag can be true returns final-rest[1:] under final-rest[0] == ','.
func wrapperAdvances(p *Program, rest ssa.Value, pred, header *ssa.BasicBlock) (bool, string) {
	ex, ok := rest.(*ssa.Extract)
	if !ok {
		return false, ""
	}
	call, ok := ex.Tuple.(*ssa.Call)
	if !ok {
		return false, ""
	}
	g := staticCallee(call.Common())
	if g == nil || g.Blocks == nil || g.Pkg == nil || !strings.HasPrefix(g.Pkg.Pkg.Path(), modulePath) {
		return false, ""
	}
	flagIdx := -1
	for _, gd := range EdgeGuards(pred, header) {
		fx, ok := gd.Cond.(*ssa.Extract)
		if ok && fx.Tuple == ex.Tuple && gd.Pol {
			flagIdx = fx.Index
		}
	}
	if flagIdx < 0 {
		return false, ""
	}
	// the inner chain and its final rest
	var li ssa.Value
	for ai, prm := range g.Params {
		if ai >= len(call.Common().Args) || !isStringish(prm.Type()) {
			continue
		}
		if inner, l := splitChain(p, g, prm, 1); len(inner) > 0 && l != nil {
			li = l
		}
	}
	if li == nil {
		return false, ""
	}
	n := 0
	for _, ret := range Returns(g) {
		if ex.Index >= len(ret.Results) || flagIdx >= len(ret.Results) {
			return false, ""
		}
		if bv, isK := constBool(ret.Results[flagIdx]); isK && !bv {
			continue // the loop ends after this return
		}
		x, ok := ret.Results[ex.Index].(*ssa.Slice)
		if !ok {
			return false, " (" + fnName(g) + " can report a skipped ',' without having skipped one)"
		}
		lo, okLo := constInt(x.Low)
		if !(x.X == li && okLo && lo == 1 && x.High == nil && edgeByteGuardPhi(x.Block(), li, true) == ",") {
			return false, " (" + fnName(g) + " can report a skipped ',' without having skipped one)"
		}
		n++
	}
	return n > 0, ""
}
