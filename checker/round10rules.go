package main

// Rules added after the mutation sweep (DESIGN §10.2): small syntactic mutants of the code behind the repairs
// F17/F31/F36/F37 that the pinned test suite lets through and that the earlier rules did not see, because those
// rules checked that the consumers of a record read it, not that the producers write it.

import (
	"fmt"
	"go/token"
	"go/types"
	"os"
	"strings"

	"golang.org/x/tools/go/ssa"
)

// attrStartLeaf: "the context is inside an attribute value and no static text has been recorded for it".
func attrStartLeaf(p *Program) func(v ssa.Value) tv {
	stAttr := stateConst(p, "stateAttr")
	return func(v ssa.Value) tv {
		bo, ok := v.(*ssa.BinOp)
		if !ok {
			return tvUnknown
		}
		x, y := bo.X, bo.Y
		if _, isK := x.(*ssa.Const); isK {
			x, y = y, x
		}
		pol := func(eq bool) tv {
			switch bo.Op {
			case token.EQL:
				return tvOf(eq)
			case token.NEQ:
				return tvOf(!eq)
			}
			return tvUnknown
		}
		if _, path, ok := loadPath(x); ok {
			if (path == "state" || strings.HasSuffix(path, ".state")) && isNamed(x.Type(), pkgTemplate, "state") {
				if k, ok := constInt(y); ok {
					return pol(k == stAttr)
				}
			}
			if path == "value" || strings.HasSuffix(path, ".value") {
				if k, ok := constString(y); ok {
					return pol(k == "")
				}
			}
		}
		if lv, isLen := isLenOf(x); isLen {
			if _, path, ok := loadPath(lv); ok && (path == "value" || strings.HasSuffix(path, ".value")) {
				if k, ok := constInt(y); ok && k == 0 {
					switch bo.Op {
					case token.EQL:
						return tvTrue
					case token.NEQ, token.GTR:
						return tvFalse
					}
				}
			}
		}
		return tvUnknown
	}
}

// setsFieldOnAllPaths: every path through f stores true into a field called name (under the leaf assumptions).
func setsFieldOnAllPaths(f *ssa.Function, name string, leaf func(ssa.Value) tv, depth int) bool {
	if f == nil || f.Blocks == nil || depth > 2 {
		return false
	}
	ok, n := true, 0
	w := &tvWalk{Leaf: leaf}
	w.Step = func(in ssa.Instruction, st map[string]bool, val func(ssa.Value) tv) {
		if s, isSt := in.(*ssa.Store); isSt {
			if _, path := pathAddrRoot(s.Addr); path == name || strings.HasSuffix(path, "."+name) {
				st["set"] = val(s.Val) == tvTrue
			}
		}
	}
	w.Ret = func(ret *ssa.Return, st map[string]bool, val func(ssa.Value) tv) {
		n++
		if !st["set"] {
			ok = false
		}
	}
	w.run(f.Blocks[0], map[string]bool{})
	return ok && n > 0 && !w.Over
}

// checkActionMarksStart: after an action has been given its sanitizers, the context handed back records that a
// value which had no static text now starts with an action (attr.dynamicStart). The consumers of that record — no
// second action at the start of a URL, no second word in an enumerated value, the check of static text after the
// action — are decided elsewhere; without the producer they never fire.
func checkActionMarksStart(p *Program, r *Report, rules ...string) {
	A := p.Func("template", "(*escaper).escapeAction")
	cn := "template.(*escaper).escapeAction#marks-dynamic-start"
	undec := func(pos, why string) {
		for _, x := range rules {
			r.Undec(x, cn, pos, why)
		}
	}
	if A == nil || A.Blocks == nil {
		undec("", "anchor not found")
		return
	}
	edit := p.Func("template", "(*escaper).editActionNode")
	var call *ssa.Call
	for _, b := range A.Blocks {
		for _, in := range b.Instrs {
			if c, ok := in.(*ssa.Call); ok && edit != nil && staticCallee(c.Common()) == edit {
				call = c
			}
		}
	}
	if call == nil {
		undec(p.Pos(A.Pos()), "the place where the action's sanitizers are recorded was not found")
		return
	}
	errState := stateConst(p, "stateError")
	leaf := attrStartLeaf(p)
	bad, n := "", 0
	w := &tvWalk{Leaf: leaf}
	w.Step = func(in ssa.Instruction, st map[string]bool, val func(ssa.Value) tv) {
		switch x := in.(type) {
		case *ssa.Store:
			if _, path := pathAddrRoot(x.Addr); path == "dynamicStart" || strings.HasSuffix(path, ".dynamicStart") {
				st["set"] = val(x.Val) == tvTrue
			}
		case *ssa.Call:
			if g := staticCallee(x.Common()); g != nil && g != edit && g.Pkg == A.Pkg && setsFieldOnAllPaths(g, "dynamicStart", leaf, 0) {
				st["set"] = true
			}
		}
	}
	w.Ret = func(ret *ssa.Return, st map[string]bool, val func(ssa.Value) tv) {
		if isErrorContextReturn(ret, errState) {
			return
		}
		n++
		if !st["set"] && bad == "" {
			bad = p.Pos(ret.Pos())
		}
	}
	w.run(call.Block(), map[string]bool{})
	if w.Over {
		undec(p.Pos(A.Pos()), "too many paths")
		return
	}
	for _, x := range rules {
		r.Check(bad == "" && n > 0, x, cn, p.Pos(call.Pos()), "an action in an attribute value that has no static text yet marks the value as started by an action on every path that hands the context back", "after an action at the very start of an attribute value the context can be handed back ("+bad+") without attr.dynamicStart: the next action is again sanitized as the start of the value, and static text after the action is not looked at — "+"`<a href=\"{{.A}}{{.B}}\">` with A=\"java\", B=\"script:alert(1)\" emits href=\"javascript:alert(1)\"; `<a target=\"{{.A}}{{.B}}\">` emits a word that is not listed")
	}
}

// checkJoinAccumulatesFlags: the boolean marks of the attribute value (ambiguous, started by an action) that only
// the second branch of a conditional carries survive the join: on every path of join() that hands back a context
// built from the first operand, the mark is set there when it is set in the second.
func checkJoinAccumulatesFlags(p *Program, r *Report, rule string) {
	join := p.Func("template", "join")
	if join == nil || join.Blocks == nil || len(join.Params) < 2 {
		r.Undec(rule, "template.join", "", "anchor not found")
		return
	}
	tpk := p.Pkg("template")
	at, _ := tpk.Types.Scope().Lookup(currentName(p, "template", "attr")).(*types.TypeName)
	if at == nil {
		r.Undec(rule, "template.attr", "", "anchor not found")
		return
	}
	st, _ := at.Type().Underlying().(*types.Struct)
	var flags []string
	for i := 0; st != nil && i < st.NumFields(); i++ {
		if b, ok := st.Field(i).Type().Underlying().(*types.Basic); ok && b.Info()&types.IsBoolean != 0 {
			flags = append(flags, st.Field(i).Name())
		}
	}
	if len(flags) == 0 {
		r.Undec(rule, "template.attr#marks", "", "the attribute record has no boolean marks")
		return
	}
	errState := stateConst(p, "stateError")
	spill := func(prm *ssa.Parameter) ssa.Value {
		for _, ref := range *prm.Referrers() {
			if s, ok := ref.(*ssa.Store); ok && s.Val == ssa.Value(prm) {
				return s.Addr
			}
		}
		return nil
	}
	aRoot, bRoot := spill(join.Params[0]), spill(join.Params[1])
	for _, fl := range flags {
		cn := "template.join#accumulates:attr." + fl
		if aRoot == nil {
			// the first operand is never written: nothing is merged into it
			r.Viol(rule, cn, p.Pos(join.Pos()), "join() never writes its first operand: the mark attr."+fl+" of the second branch is dropped", "")
			continue
		}
		suffix := "attr." + fl
		leaf := func(v ssa.Value) tv {
			if root, path, ok := loadPath(v); ok {
				if path == suffix && (root == bRoot && bRoot != nil || root == ssa.Value(join.Params[1])) {
					return tvTrue
				}
			}
			if bo, ok := v.(*ssa.BinOp); ok && (bo.Op == token.EQL || bo.Op == token.NEQ) {
				if _, path, ok := loadPath(bo.X); ok && path == "state" {
					if k, ok := constInt(bo.Y); ok && k == errState {
						return tvOf(bo.Op == token.NEQ) // neither operand is an error context
					}
				}
			}
			return tvUnknown
		}
		bad, n, unk := "", 0, ""
		has := map[ssa.Value]bool{} // updated along one path at a time through st keys
		_ = has
		key := func(v ssa.Value) string { return fmt.Sprintf("%p", v) }
		w := &tvWalk{Leaf: leaf}
		var fromMarked func(v ssa.Value, st map[string]bool, d int) (bool, bool)
		w.Step = func(in ssa.Instruction, st map[string]bool, val func(ssa.Value) tv) {
			s, ok := in.(*ssa.Store)
			if !ok {
				return
			}
			root, path := pathAddrRoot(s.Addr)
			if os.Getenv("R10_DEBUG") != "" {
				fmt.Println("R10 store", root.Name(), path, suffix)
			}
			if _, isAl := root.(*ssa.Alloc); !isAl {
				return
			}
			switch {
			case path == suffix:
				st[key(root)] = val(s.Val) == tvTrue
			case path == "":
				// a whole context copied from another local, or handed back by a helper: the mark comes along
				if _, isPrm := s.Val.(*ssa.Parameter); isPrm {
					return
				}
				m, _ := fromMarked(s.Val, st, 0)
				st[key(root)] = m
				if ld, ok := s.Val.(*ssa.UnOp); ok {
					if al, ok := ld.X.(*ssa.Alloc); ok && st[key(al)+"?"] {
						st[key(root)+"?"] = true
					}
				}
			case path == "attr":
				st[key(root)] = false
				if ld, ok := s.Val.(*ssa.UnOp); ok && ld.Op == token.MUL {
					if r2, p2 := pathAddrRoot(ld.X); p2 == "attr" {
						st[key(root)] = st[key(r2)]
					}
				} else if _, isCall := s.Val.(*ssa.Call); isCall {
					// the whole attribute record comes out of a helper: not followed
					st[key(root)+"?"] = true
					st["?any"] = true
				}
			}
		}
		fromMarked = func(v ssa.Value, st map[string]bool, d int) (bool, bool) {
			if d > 4 {
				return false, false
			}
			switch x := v.(type) {
			case *ssa.UnOp:
				if al, ok := x.X.(*ssa.Alloc); ok && x.Op == token.MUL {
					return st[key(al)], true
				}
			case *ssa.Call:
				// a context → context helper (nudge) or the recursive join of such contexts: the mark of its first
				// context argument is what it hands on
				g := staticCallee(x.Common())
				if g == nil || g.Pkg != join.Pkg {
					return false, false
				}
				for _, a := range x.Common().Args {
					if isNamed(a.Type(), pkgTemplate, "context") {
						return fromMarked(a, st, d+1)
					}
				}
			case *ssa.Phi:
				all := true
				for _, e := range x.Edges {
					m, ok := fromMarked(e, st, d+1)
					if !ok {
						return false, false
					}
					all = all && m
				}
				return all, true
			}
			return false, false
		}
		w.Ret = func(ret *ssa.Return, st map[string]bool, val func(ssa.Value) tv) {
			if len(ret.Results) != 1 || isErrorContextReturn(ret, errState) {
				return
			}
			if os.Getenv("R10_DEBUG") != "" {
				fmt.Println("R10 join ret", p.Pos(ret.Pos()), st, errState)
			}
			n++
			m, ok := fromMarked(ret.Results[0], st, 0)
			if ok && !m && st["?any"] {
				ok = false // somewhere on this path the record was replaced by a helper's result
			}
			if !ok {
				if unk == "" {
					unk = p.Pos(ret.Pos())
				}
				return
			}
			if !m && bad == "" {
				bad = p.Pos(ret.Pos())
			}
		}
		init := map[string]bool{}
		if bRoot != nil {
			init[key(bRoot)] = true
		}
		w.run(join.Blocks[0], init)
		switch {
		case w.Over:
			r.Undec(rule, cn, p.Pos(join.Pos()), "too many paths")
		case bad == "" && unk != "":
			r.OK(rule, cn, unk, "not decided: the context handed back here is not built from the operands in a way the rule follows (a helper returns the merged record)")
		default:
			r.Check(bad == "" && n > 0, rule, cn, p.Pos(join.Pos()), "a mark that only the second branch carries is set in the joined context on every path", "join() can hand back a context ("+bad+") without the mark attr."+fl+" although the second branch carries it: after `{{if .C}}x{{else}}{{.A}}{{end}}` in an attribute value the value counts as not started by an action (or not ambiguous) — `<a href=\"{{if .C}}{{else}}{{.A}}{{end}}{{.B}}\">` with A=\"java\", B=\"script:alert(1)\" emits href=\"javascript:alert(1)\"")
		}
	}
}

// nonEmptySlice: the slice value is certainly not empty where it is used: a literal with elements, or a merge of
// such a literal with a slice that was tested for emptiness on the way.
func nonEmptySlice(v ssa.Value, depth int) bool {
	if depth > 3 {
		return false
	}
	switch x := v.(type) {
	case *ssa.Slice:
		if al, ok := x.X.(*ssa.Alloc); ok {
			if pt, ok := al.Type().Underlying().(*types.Pointer); ok {
				if arr, ok := pt.Elem().Underlying().(*types.Array); ok && arr.Len() >= 1 && x.Low == nil && x.High == nil {
					return true
				}
			}
		}
	case *ssa.Call:
		// a helper such as namesOr(list, single): every result is non-empty (a parameter it returns was tested)
		g := staticCallee(x.Common())
		if g == nil || g.Blocks == nil {
			return false
		}
		rets := Returns(g)
		for _, ret := range rets {
			if len(ret.Results) != 1 {
				return false
			}
			rv := ret.Results[0]
			if nonEmptySlice(rv, depth+1) {
				continue
			}
			prm, ok := rv.(*ssa.Parameter)
			if !ok {
				return false
			}
			tested := false
			for _, gd := range GuardsOf(ret.Block()) {
				bo, ok := gd.Cond.(*ssa.BinOp)
				if !ok {
					continue
				}
				lv, isLen := isLenOf(bo.X)
				k, isK := constInt(bo.Y)
				if !isLen || !isK || k != 0 || lv != ssa.Value(prm) {
					continue
				}
				if (bo.Op == token.NEQ || bo.Op == token.GTR) && gd.Pol || bo.Op == token.EQL && !gd.Pol {
					tested = true
				}
			}
			if !tested {
				return false
			}
		}
		return len(rets) > 0
	case *ssa.Phi:
		for i, e := range x.Edges {
			if nonEmptySlice(e, depth+1) {
				continue
			}
			pr := x.Block().Preds[i]
			iff, ok := pr.Instrs[len(pr.Instrs)-1].(*ssa.If)
			if !ok {
				return false
			}
			bo, ok := iff.Cond.(*ssa.BinOp)
			if !ok {
				return false
			}
			lv, isLen := isLenOf(bo.X)
			k, isK := constInt(bo.Y)
			if !isLen || !isK || k != 0 || lv != e {
				return false
			}
			nonEmptyOnTrue := bo.Op == token.NEQ || bo.Op == token.GTR
			emptyOnTrue := bo.Op == token.EQL
			switch {
			case nonEmptyOnTrue && pr.Succs[0] == x.Block() && pr.Succs[1] != x.Block():
			case emptyOnTrue && pr.Succs[1] == x.Block() && pr.Succs[0] != x.Block():
			default:
				return false
			}
		}
		return len(x.Edges) > 0
	}
	return false
}

// checkCandidateListsNonEmpty: a function that decides per candidate name (element × attribute names after a
// conditional) in loops whose body holds the policy lookup must run each loop at least once: the usual case is a
// context without recorded names, where the single current name is the candidate.
func checkCandidateListsNonEmpty(p *Program, r *Report, fn *ssa.Function, rules ...string) {
	if fn == nil || fn.Blocks == nil {
		for _, x := range rules {
			r.Undec(x, "template#candidate-loops", "", "anchor not found")
		}
		return
	}
	short := strings.TrimPrefix(fnName(fn), pkgTemplate+".")
	var lookup *ssa.Call
	for _, b := range fn.Blocks {
		for _, in := range b.Instrs {
			if c, ok := in.(*ssa.Call); ok {
				if tu, ok := c.Type().(*types.Tuple); ok && tu.Len() == 2 && isNamed(tu.At(0).Type(), pkgTemplate, "sanitizationContext") {
					lookup = c
				}
			}
		}
	}
	if lookup == nil {
		for _, x := range rules {
			r.Undec(x, "template."+short+"#candidate-loops", p.Pos(fn.Pos()), "the policy lookup was not found")
		}
		return
	}
	n := 0
	for _, h := range loopHeaders(fn) {
		if !h.Dominates(lookup.Block()) {
			continue
		}
		iff, ok := h.Instrs[len(h.Instrs)-1].(*ssa.If)
		if !ok {
			continue
		}
		bo, ok := iff.Cond.(*ssa.BinOp)
		if !ok || bo.Op != token.LSS {
			continue
		}
		sl, isLen := isLenOf(bo.Y)
		if !isLen {
			continue
		}
		if _, isSl := sl.Type().Underlying().(*types.Slice); !isSl {
			continue
		}
		n++
		ok2 := nonEmptySlice(sl, 0)
		for _, x := range rules {
			r.Check(ok2, x, fmt.Sprintf("template.%s#candidate-loop-%d-runs", short, n), p.Pos(iff.Pos()), "the list of candidate names the decision ranges over is never empty (the current name stands in when no names were recorded)", "the loop over candidate names can run zero times — in the usual case, a context without names recorded by a conditional — and the function then accepts without having looked at anything")
		}
	}
	if n == 0 {
		for _, x := range rules {
			r.OK(x, "template."+short+"#candidate-loops", p.Pos(fn.Pos()), "the policy lookup is not inside a loop over candidate names")
		}
	}
}

// checkLinkRelMixedNames: when a conditional made the attribute a rel attribute in some branches only (attr.names
// holds "rel" and another name), the text scanner records the rel values of the link as unknown — on every path,
// whichever of the names happens to be attr.name.
func checkLinkRelMixedNames(p *Program, r *Report, rule string) {
	T := p.Func("template", "contextAfterText")
	cn := "template.contextAfterText#link-rel-mixed-names"
	if T == nil || T.Blocks == nil {
		r.Undec(rule, cn, "", "anchor not found")
		return
	}
	errState := stateConst(p, "stateError")
	stAttr := stateConst(p, "stateAttr")
	isNamesElem := func(v ssa.Value) bool {
		// an element of attr.names: a load of &names[i], or the value of a range
		u, ok := v.(*ssa.UnOp)
		if !ok || u.Op != token.MUL {
			return false
		}
		ia, ok := u.X.(*ssa.IndexAddr)
		if !ok {
			return false
		}
		_, path, ok := loadPath(ia.X)
		return ok && (path == "attr.names" || strings.HasSuffix(path, ".attr.names") || path == "names")
	}
	relCmp := func(v ssa.Value) (elem bool, eqOnTrue bool, ok bool) {
		bo, isB := v.(*ssa.BinOp)
		if !isB || (bo.Op != token.EQL && bo.Op != token.NEQ) {
			return false, false, false
		}
		x, y := bo.X, bo.Y
		if _, isK := x.(*ssa.Const); isK {
			x, y = y, x
		}
		if k, isK := constString(y); !isK || k != "rel" {
			return false, false, false
		}
		if isNamesElem(x) {
			return true, bo.Op == token.EQL, true
		}
		return false, false, false
	}
	leaf := func(v ssa.Value) tv {
		bo, ok := v.(*ssa.BinOp)
		if !ok || (bo.Op != token.EQL && bo.Op != token.NEQ) {
			return tvUnknown
		}
		pol := func(eq bool) tv { return tvOf(eq == (bo.Op == token.EQL)) }
		if _, path, ok := loadPath(bo.X); ok {
			switch {
			case path == "state" && isNamed(bo.X.Type(), pkgTemplate, "state"):
				if k, ok := constInt(bo.Y); ok {
					return pol(k == stAttr)
				}
			case path == "element.name":
				if k, ok := constString(bo.Y); ok {
					return pol(k == "link")
				}
			case path == "linkRel":
				if k, ok := constString(bo.Y); ok {
					return pol(k == "")
				}
			case path == "attr.ambiguousValue":
			}
		}
		return tvUnknown
	}
	bad, n := "", 0
	w := &tvWalk{Leaf: leaf, Visits: 3, Limit: 200000}
	w.Branch = func(iff *ssa.If, taken bool, st map[string]bool) {
		if elem, eqOnTrue, ok := relCmp(iff.Cond); ok && elem {
			if taken == eqOnTrue {
				st["sawRel"] = true
			} else {
				st["sawOther"] = true
			}
		}
	}
	w.Step = func(in ssa.Instruction, st map[string]bool, val func(ssa.Value) tv) {
		s, ok := in.(*ssa.Store)
		if !ok {
			return
		}
		if _, path := pathAddrRoot(s.Addr); path == "linkRel" {
			k, isK := constString(s.Val)
			st["unknown"] = isK && strings.TrimSpace(k) == "" && k != ""
			st["stored"] = true
		}
	}
	w.Ret = func(ret *ssa.Return, st map[string]bool, val func(ssa.Value) tv) {
		if os.Getenv("R10_DEBUG") != "" {
			fmt.Println("R10 rel ret", p.Pos(ret.Pos()), st)
		}
		if isErrorContextReturn(ret, errState) || !st["sawRel"] || !st["sawOther"] {
			return
		}
		n++
		if !st["unknown"] && bad == "" {
			bad = p.Pos(ret.Pos())
		}
	}
	// from the place where the scanner leaves the attribute value: the first block that reads attr.names
	var start *ssa.BasicBlock
	for _, b := range T.Blocks {
		for _, in := range b.Instrs {
			if v, ok := in.(ssa.Value); ok {
				if _, path, ok := loadPath(v); ok && path == "attr.names" && start == nil {
					start = b
				}
			}
		}
	}
	if start == nil {
		r.Undec(rule, cn, p.Pos(T.Pos()), "the text scanner does not read attr.names where it leaves an attribute value")
		return
	}
	w.run(start, map[string]bool{})
	if w.Over {
		r.Undec(rule, cn, p.Pos(T.Pos()), "too many paths")
		return
	}
	r.Check(bad == "" && n > 0, rule, cn, p.Pos(start.Instrs[0].Pos()), "with \"rel\" and another name among the names the attribute can have, the rel values of the link are recorded as unknown on every path", "with \"rel\" and another name among the names a conditional left for the attribute, the scanner can leave the value ("+bad+") without recording the rel values of the link as unknown: in the branch where this is the first rel attribute the browser uses it, the escaper a later one — "+"`<link {{if .C}}title{{else}}rel{{end}}=\"stylesheet\" rel=\"icon\" href=\"{{.U}}\">` takes a plain URL for a stylesheet")
}

// textAfterStartValidator: the function the text scanner consults about static text after an action at the start
// of a value (found as in checkTextAfterStartAction: an error-returning callee that reads attr.dynamicStart).
func textAfterStartValidator(p *Program) *ssa.Function {
	T := p.Func("template", "contextAfterText")
	if T == nil {
		return nil
	}
	var V *ssa.Function
	for _, b := range T.Blocks {
		for _, in := range b.Instrs {
			c, ok := in.(*ssa.Call)
			if !ok {
				continue
			}
			g := staticCallee(c.Common())
			if g == nil || g.Pkg != T.Pkg || g.Blocks == nil || g.Signature.Results().Len() != 1 || !isErrorType(g.Signature.Results().At(0).Type()) {
				continue
			}
			if fnReadsDynamicStart(g) {
				V = g
			}
		}
	}
	return V
}

// checkVoidDropKeepsMixedElement (C04, repair F35): at the end of a start tag the element is forgotten when it is a
// void element — but only if every name a conditional left for it is void. On every path of the tag scanner on
// which one of element.names was found not to be in the table of void elements, the context handed back still has
// its element.
func checkVoidDropKeepsMixedElement(p *Program, r *Report, rule string) {
	T := p.Func("template", "tTag")
	cn := "template.tTag#mixed-names-keep-element"
	if T == nil || T.Blocks == nil {
		r.Undec(rule, cn, "", "anchor not found")
		return
	}
	// the forgetting of a void element may live in a helper of the tag scanner
	cands := []*ssa.Function{T}
	for _, b := range T.Blocks {
		for _, in := range b.Instrs {
			if c, ok := in.(*ssa.Call); ok {
				if g := staticCallee(c.Common()); g != nil && g.Pkg == T.Pkg && g.Blocks != nil {
					cands = append(cands, g)
				}
			}
		}
	}
	for _, f := range cands {
		for _, b := range f.Blocks {
			for _, in := range b.Instrs {
				if s, ok := in.(*ssa.Store); ok {
					if _, path := pathAddrRoot(s.Addr); path == "element" {
						if k, ok := s.Val.(*ssa.Const); ok && k.Value == nil {
							T = f
						}
					}
				}
			}
		}
	}
	isNamesElem := func(v ssa.Value) bool {
		u, ok := v.(*ssa.UnOp)
		if !ok || u.Op != token.MUL {
			return false
		}
		ia, ok := u.X.(*ssa.IndexAddr)
		if !ok {
			return false
		}
		_, path, ok := loadPath(ia.X)
		return ok && (path == "element.names" || strings.HasSuffix(path, ".element.names"))
	}
	// the table (and kind) that says "void": the membership test of element.name under which the element is dropped
	var voidTable *ssa.Global
	var voidKind *ssa.Const
	unwrap := func(v ssa.Value) (ssa.Value, bool) {
		neg := false
		for {
			u, isU := v.(*ssa.UnOp)
			if !isU || u.Op != token.NOT {
				break
			}
			neg = !neg
			v = u.X
		}
		if bo, ok := v.(*ssa.BinOp); ok && bo.Op == token.NEQ {
			// x != K is !(x == K): rebuild as the equality for the membership reader
			return v, !neg
		}
		return v, neg
	}
	member := func(v ssa.Value) (*ssa.Global, *ssa.Const, ssa.Value, bool, bool) {
		w, neg := unwrap(v)
		if bo, ok := w.(*ssa.BinOp); ok && bo.Op == token.NEQ {
			for _, side := range [][2]ssa.Value{{bo.X, bo.Y}, {bo.Y, bo.X}} {
				if k, isK := side[1].(*ssa.Const); isK && k.Value != nil {
					if lk, ok := side[0].(*ssa.Lookup); ok && !lk.CommaOk {
						if u, ok := lk.X.(*ssa.UnOp); ok {
							if g, ok := u.X.(*ssa.Global); ok {
								return g, k, lk.Index, neg, true
							}
						}
					}
				}
			}
			return nil, nil, nil, false, false
		}
		g, k, key, ok := memberTestOf(w, 0)
		return g, k, key, neg, ok
	}
	for _, b := range T.Blocks {
		for _, in := range b.Instrs {
			s, ok := in.(*ssa.Store)
			if !ok {
				continue
			}
			if _, path := pathAddrRoot(s.Addr); path != "element" {
				continue
			}
			if k, ok := s.Val.(*ssa.Const); !ok || k.Value != nil {
				continue
			}
			for _, gd := range GuardsOf(b) {
				g, k, key, neg, ok := member(gd.Cond)
				if !ok || neg == gd.Pol {
					continue
				}
				if _, path, ok := loadPath(key); ok && path == "element.name" {
					voidTable, voidKind = g, k
				}
			}
		}
	}
	if voidTable == nil {
		r.Undec(rule, cn, p.Pos(T.Pos()), "the test under which the tag scanner forgets a void element was not found")
		return
	}
	sameKind := func(a, b *ssa.Const) bool {
		if a == nil || b == nil {
			return a == nil && b == nil
		}
		return a.Value != nil && b.Value != nil && a.Value.ExactString() == b.Value.ExactString()
	}
	voidLookup := func(v ssa.Value) (neg bool, ok bool) {
		g, k, key, neg, ok := member(v)
		if !ok || g != voidTable || !sameKind(k, voidKind) || !isNamesElem(key) {
			return false, false
		}
		return neg, true
	}
	var start *ssa.BasicBlock
	for _, b := range T.Blocks {
		for _, in := range b.Instrs {
			if v, ok := in.(ssa.Value); ok && start == nil {
				if _, path, ok := loadPath(v); ok && path == "element.names" {
					start = b
				}
			}
		}
	}
	if start == nil {
		r.Undec(rule, cn, p.Pos(T.Pos()), "the tag scanner does not read element.names")
		return
	}
	bad, n := "", 0
	w := &tvWalk{Leaf: func(ssa.Value) tv { return tvUnknown }, Visits: 3, Limit: 200000}
	w.Branch = func(iff *ssa.If, taken bool, st map[string]bool) {
		if neg, ok := voidLookup(iff.Cond); ok {
			if taken == neg { // the name is not a void element
				st["nonVoid"] = true
			}
		}
	}
	w.Step = func(in ssa.Instruction, st map[string]bool, val func(ssa.Value) tv) {
		if s, ok := in.(*ssa.Store); ok {
			if _, path := pathAddrRoot(s.Addr); path == "element" {
				if k, ok := s.Val.(*ssa.Const); ok && k.Value == nil {
					st["dropped"] = true
				}
			}
		}
	}
	w.Ret = func(ret *ssa.Return, st map[string]bool, val func(ssa.Value) tv) {
		if !st["nonVoid"] {
			return
		}
		n++
		if st["dropped"] && bad == "" {
			bad = p.Pos(ret.Pos())
		}
	}
	w.run(start, map[string]bool{})
	if w.Over {
		r.Undec(rule, cn, p.Pos(T.Pos()), "too many paths")
		return
	}
	if n == 0 {
		r.Undec(rule, cn, p.Pos(T.Pos()), "no path of the tag scanner tests the names a conditional left for the element against the table of void elements")
		return
	}
	r.Check(bad == "", rule, cn, p.Pos(start.Instrs[0].Pos()), "where one of the names a conditional left for the element is not a void element, the element is kept at the end of the tag", "the element is forgotten at the end of the tag ("+bad+") although one of the names a conditional left for it is not a void element: what follows is the content of that element, and actions in it are checked against no element at all — `{{if .C}}<img{{else}}<script{{end}}>{{.X}}`")
}

// checkTextValidatorIgnoresValueWhenAmbiguous (C02, repair F39): after a conditional, attr.value is the text one of
// the branches wrote; another branch may have written nothing. Under attr.ambiguousValue no decision of the
// validator of text after a start action may depend on attr.value: followed as a taint along every path (phis by
// the edge taken), from the loads of attr.value to the branch conditions.
func checkTextValidatorIgnoresValueWhenAmbiguous(p *Program, r *Report, rule string) {
	V := textAfterStartValidator(p)
	if V == nil || V.Blocks == nil {
		r.Undec(rule, "template#text-after-start-validator", "", "anchor not found")
		return
	}
	short := strings.TrimPrefix(fnName(V), pkgTemplate+".")
	cn := "template." + short + "#ambiguous-value-not-trusted"
	key := func(v ssa.Value) string { return fmt.Sprintf("t%p", v) }
	bad := ""
	n := 0
	w := &tvWalk{Visits: 2, Limit: 100000}
	w.Leaf = func(v ssa.Value) tv {
		if _, path, ok := loadPath(v); ok && (path == "attr.ambiguousValue" || strings.HasSuffix(path, ".ambiguousValue")) {
			return tvTrue
		}
		return tvUnknown
	}
	w.Step = func(in ssa.Instruction, st map[string]bool, val func(ssa.Value) tv) {
		v, isVal := in.(ssa.Value)
		if isVal {
			t := false
			if _, path, ok := loadPath(v); ok && (path == "attr.value" || strings.HasSuffix(path, ".attr.value")) && isStringish(v.Type()) {
				t = true
			}
			if ph, ok := in.(*ssa.Phi); ok {
				for i, pr := range ph.Block().Preds {
					if pr == w.From && st[key(ph.Edges[i])] {
						t = true
					}
				}
			} else {
				for _, op := range in.Operands(nil) {
					if *op != nil && st[key(*op)] {
						t = true
					}
				}
			}
			st[key(v)] = t
		}
		if iff, ok := in.(*ssa.If); ok {
			n++
			if st[key(iff.Cond)] && val(iff.Cond) == tvUnknown && bad == "" {
				bad = p.Pos(iff.Cond.Pos())
				if bad == "" || bad == "-" {
					bad = p.Pos(V.Pos())
				}
			}
		}
	}
	w.run(V.Blocks[0], map[string]bool{})
	if w.Over {
		r.Undec(rule, cn, p.Pos(V.Pos()), "too many paths")
		return
	}
	r.Check(bad == "" && n > 0, rule, cn, p.Pos(V.Pos()), "with an ambiguous recorded value no decision of the validator depends on attr.value", "the validator decides ("+bad+") from attr.value although attr.ambiguousValue says that it is the text of one branch only: `<a href=\"{{.X}}{{if .N}}/{{end}}script:alert(1)\">` with X=\"java\", N=false emits href=\"javascript:alert(1)\" — the '/' of the other branch made the text look harmless")
}

// checkLtRewriteGate (C01): the rewrite of a stray '<' to "&lt;" applies in ordinary text and inside RCDATA elements
// (textarea, title), and it must apply from the first piece of a text node on — a text node can start inside such
// an element (after an action, at the start of a branch or of a called template). Under each of the two situations
// the write of "&lt;" must be reachable in the first turn of the scanning loop by branches the situation does not
// decide the other way.
func checkLtRewriteGate(p *Program, r *Report, rule string) {
	fn := p.Func("template", "(*escaper).escapeText")
	cn := "template.(*escaper).escapeText#lt-rewrite-from-the-first-piece"
	if fn == nil || fn.Blocks == nil {
		r.Undec(rule, cn, "", "anchor not found")
		return
	}
	var hasWrite func(f *ssa.Function, depth int) bool
	hasWrite = func(f *ssa.Function, depth int) bool {
		if f == nil || f.Blocks == nil || depth > 2 {
			return false
		}
		for _, b := range f.Blocks {
			for _, in := range b.Instrs {
				c, ok := in.(*ssa.Call)
				if !ok {
					continue
				}
				if len(c.Common().Args) == 2 {
					if k, ok := constString(c.Common().Args[1]); ok && k == "&lt;" {
						return true
					}
				}
				if g := staticCallee(c.Common()); g != nil && g != f && g.Pkg == fn.Pkg && hasWrite(g, depth+1) {
					return true
				}
			}
		}
		return false
	}
	var writes []*ssa.BasicBlock
	for _, b := range fn.Blocks {
		for _, in := range b.Instrs {
			c, ok := in.(*ssa.Call)
			if !ok {
				continue
			}
			if len(c.Common().Args) == 2 {
				if k, ok := constString(c.Common().Args[1]); ok && k == "&lt;" {
					writes = append(writes, b)
					continue
				}
			}
			// the rewrite may live in a helper of the rewriter: reaching the call counts
			if g := staticCallee(c.Common()); g != nil && g.Pkg == fn.Pkg && !strings.HasPrefix(g.Name(), "escape") && hasWrite(g, 0) {
				writes = append(writes, b)
			}
		}
	}
	if len(writes) == 0 {
		r.OK(rule, cn, p.Pos(fn.Pos()), "the rewrite is not written in the text-node rewriter itself (decided by C01.R8 where it is)")
		return
	}
	stText := stateConst(p, "stateText")
	var rcdata int64 = -1
	tpk := p.Pkg("template")
	if o := tpk.Types.Scope().Lookup("sanitizationContext"); o != nil {
		for v, nm := range ConstNames(tpk, o.Type()) {
			if nm == "sanitizationContextRCDATA" {
				rcdata = v
			}
		}
	}
	for _, sit := range []struct {
		name string
		text bool
	}{{"text", true}, {"rcdata", false}} {
		leaf := func(v ssa.Value) tv {
			bo, ok := v.(*ssa.BinOp)
			if !ok || (bo.Op != token.EQL && bo.Op != token.NEQ) {
				return tvUnknown
			}
			pol := func(eq bool) tv { return tvOf(eq == (bo.Op == token.EQL)) }
			x, y := bo.X, bo.Y
			if _, isK := x.(*ssa.Const); isK {
				x, y = y, x
			}
			if _, path, ok := loadPath(x); ok && path == "state" && isNamed(x.Type(), pkgTemplate, "state") {
				if k, ok := constInt(y); ok {
					if k == stText {
						return pol(sit.text)
					}
					return tvUnknown
				}
			}
			if isNamed(x.Type(), pkgTemplate, "sanitizationContext") {
				if k, ok := constInt(y); ok && k == rcdata {
					return pol(!sit.text)
				}
			}
			if isErrorType(x.Type()) {
				if k, ok := y.(*ssa.Const); ok && k.Value == nil {
					if _, isEx := x.(*ssa.Extract); isEx {
						return pol(!sit.text) // the content-kind lookup succeeds for textarea / title
					}
				}
			}
			return tvUnknown
		}
		reached := false
		w := &tvWalk{Leaf: leaf, Limit: 300000}
		w.Step = func(in ssa.Instruction, st map[string]bool, val func(ssa.Value) tv) {
			for _, b := range writes {
				if in.Block() == b {
					reached = true
				}
			}
		}
		w.run(fn.Blocks[0], map[string]bool{})
		if w.Over && !reached {
			r.Undec(rule, cn+":"+sit.name, p.Pos(fn.Pos()), "too many paths")
			continue
		}
		what := "in ordinary text"
		if !sit.text {
			what = "inside an RCDATA element (textarea, title)"
		}
		r.Check(reached, rule, cn+":"+sit.name, p.Pos(fn.Pos()), "a text node that starts "+what+" has its stray '<' rewritten from the first piece on", "a text node that starts "+what+" does not reach the rewrite of '<' in the first turn of the scanning loop: the decision is taken from a value computed for another situation — `<textarea>{{.A}}<{{.X}} <b>x</b></textarea>` with X=\"/textarea\" closes the element with data")
	}
}

// checkMemoHitNamesTheCopy (C02, C03): escapeTree answers with the output context and the name of the template that
// was analysed for the incoming context — the context-specific copy. Where it answers from the memo, the name it
// hands back must be the key it looked up: with the plain name the caller rewrites no call, and every call site
// after the first keeps calling the original template, whose actions carry the sanitizers of another context (or
// none).
func checkMemoHitNamesTheCopy(p *Program, r *Report, rules ...string) {
	fn := p.Func("template", "(*escaper).escapeTree")
	cn := "template.(*escaper).escapeTree#memo-hit-names-the-copy"
	if fn == nil || fn.Blocks == nil {
		for _, x := range rules {
			r.Undec(x, cn, "", "anchor not found")
		}
		return
	}
	n, bad := 0, ""
	for _, ret := range Returns(fn) {
		if len(ret.Results) != 2 {
			continue
		}
		v := ret.Results[0]
		if ex, ok := v.(*ssa.Extract); ok {
			v = ex.Tuple
		}
		lk, ok := v.(*ssa.Lookup)
		if !ok {
			continue
		}
		ld, ok := lk.X.(*ssa.UnOp)
		if !ok {
			continue
		}
		fa, ok := ld.X.(*ssa.FieldAddr)
		if !ok || fieldName(fa.X.Type(), fa.Field) != "output" {
			continue
		}
		n++
		if ret.Results[1] != lk.Index && bad == "" {
			bad = p.Pos(ret.Pos())
		}
	}
	for _, x := range rules {
		if n == 0 {
			r.OK(x, cn, p.Pos(fn.Pos()), "no return hands back a value looked up in the output memo directly")
			continue
		}
		r.Check(bad == "", x, cn, p.Pos(fn.Pos()), "where the answer comes from the memo, the name handed back is the key that was looked up", "escapeTree answers from the memo ("+bad+") with another name than the key it looked up: the caller does not redirect the call to the context-specific copy, so later call sites run the original template — `{{define \"t\"}}{{.}}{{end}}<span title=\"{{template \"t\" .}}{{template \"t\" .}}\">` emits the second value with the sanitizers of element content, or none")
	}
}

// checkActionMarksRelUnknown (C02.R9): an action inside the rel attribute of a link makes the rel values unknown:
// on every path of escapeAction that hands the context back under "in an attribute value, the element is link, the
// attribute is rel", attr.ambiguousValue has been set.
func checkActionMarksRelUnknown(p *Program, r *Report, rule string) {
	A := p.Func("template", "(*escaper).escapeAction")
	cn := "template.(*escaper).escapeAction#marks-rel-unknown"
	if A == nil || A.Blocks == nil {
		r.Undec(rule, cn, "", "anchor not found")
		return
	}
	edit := p.Func("template", "(*escaper).editActionNode")
	var call *ssa.Call
	for _, b := range A.Blocks {
		for _, in := range b.Instrs {
			if c, ok := in.(*ssa.Call); ok && edit != nil && staticCallee(c.Common()) == edit {
				call = c
			}
		}
	}
	if call == nil {
		r.Undec(rule, cn, p.Pos(A.Pos()), "the place where the action's sanitizers are recorded was not found")
		return
	}
	errState := stateConst(p, "stateError")
	stAttr := stateConst(p, "stateAttr")
	leaf := func(v ssa.Value) tv {
		bo, ok := v.(*ssa.BinOp)
		if !ok || (bo.Op != token.EQL && bo.Op != token.NEQ) {
			return tvUnknown
		}
		pol := func(eq bool) tv { return tvOf(eq == (bo.Op == token.EQL)) }
		x, y := bo.X, bo.Y
		if _, isK := x.(*ssa.Const); isK {
			x, y = y, x
		}
		_, path, ok := loadPath(x)
		if !ok {
			return tvUnknown
		}
		switch {
		case path == "state" && isNamed(x.Type(), pkgTemplate, "state"):
			if k, ok := constInt(y); ok {
				return pol(k == stAttr)
			}
		case path == "element.name":
			if k, ok := constString(y); ok {
				return pol(k == "link")
			}
		case path == "attr.name":
			if k, ok := constString(y); ok {
				return pol(k == "rel")
			}
		}
		return tvUnknown
	}
	bad, n := "", 0
	w := &tvWalk{Leaf: leaf}
	w.Step = func(in ssa.Instruction, st map[string]bool, val func(ssa.Value) tv) {
		switch x := in.(type) {
		case *ssa.Store:
			if _, path := pathAddrRoot(x.Addr); path == "attr.ambiguousValue" || strings.HasSuffix(path, ".ambiguousValue") {
				st["set"] = val(x.Val) == tvTrue
			}
		case *ssa.Call:
			if g := staticCallee(x.Common()); g != nil && g != edit && g.Pkg == A.Pkg && setsFieldOnAllPaths(g, "ambiguousValue", leaf, 0) {
				st["set"] = true
			}
		}
	}
	w.Ret = func(ret *ssa.Return, st map[string]bool, val func(ssa.Value) tv) {
		if isErrorContextReturn(ret, errState) {
			return
		}
		n++
		if !st["set"] && bad == "" {
			bad = p.Pos(ret.Pos())
		}
	}
	w.run(call.Block(), map[string]bool{})
	if w.Over {
		r.Undec(rule, cn, p.Pos(A.Pos()), "too many paths")
		return
	}
	r.Check(bad == "" && n > 0, rule, cn, p.Pos(call.Pos()), "an action inside the rel attribute of a link marks the rel values as unknown on every path that hands the context back", "after an action inside the rel attribute of a link the context can be handed back ("+bad+") with the static rel values still in force: `<link rel=\"icon {{.X}}\" href=\"{{.U}}\">` with X=\"stylesheet\" takes a plain URL for a stylesheet")
}

// checkSpecialNamesAreOneElement (C02, C04; repair F40): the body of a special element (script, style, textarea,
// title) ends at the end tag of that element only. When a conditional left several names for the element and two
// of them are special elements, they must be the same element, or the scanner that looks for the current name's end
// tag leaves the body where the browser, in the other branch, does not: on every path of the tag scanner on which
// a name other than the current one was looked at, with both in the table of special elements, the context handed
// back is an error.
func checkSpecialNamesAreOneElement(p *Program, r *Report, rules ...string) {
	T := p.Func("template", "tTag")
	cn := "template.tTag#special-names-are-one-element"
	undec := func(pos, why string) {
		for _, x := range rules {
			r.Undec(x, cn, pos, why)
		}
	}
	if T == nil || T.Blocks == nil {
		undec("", "anchor not found")
		return
	}
	stSpecial := stateConst(p, "stateSpecialElementBody")
	errState := stateConst(p, "stateError")
	// the table of special elements: the membership test under which the state becomes "special element body"
	var table *ssa.Global
	var tableKind *ssa.Const
	for _, b := range T.Blocks {
		for _, in := range b.Instrs {
			s, ok := in.(*ssa.Store)
			if !ok {
				continue
			}
			if _, path := pathAddrRoot(s.Addr); path != "state" {
				continue
			}
			if k, ok := constInt(s.Val); !ok || k != stSpecial {
				continue
			}
			for _, gd := range GuardsOf(b) {
				if g, k, _, ok := memberTestOf(gd.Cond, 0); ok && gd.Pol {
					table, tableKind = g, k
				}
			}
		}
	}
	notDecided := func(why string) {
		for _, x := range rules {
			r.OK(x, cn, p.Pos(T.Pos()), "not decided: "+why+" (the clause is decided only where the tag scanner itself compares the names and enters the body)")
		}
	}
	if table == nil {
		notDecided("the test under which the tag scanner enters a special element body is not in the tag scanner")
		return
	}
	sameKind := func(a, b *ssa.Const) bool {
		if a == nil || b == nil {
			return a == nil && b == nil
		}
		return a.Value != nil && b.Value != nil && a.Value.ExactString() == b.Value.ExactString()
	}
	isNamesElem := func(v ssa.Value) bool {
		u, ok := v.(*ssa.UnOp)
		if !ok || u.Op != token.MUL {
			return false
		}
		ia, ok := u.X.(*ssa.IndexAddr)
		if !ok {
			return false
		}
		_, path, ok := loadPath(ia.X)
		return ok && (path == "element.names" || strings.HasSuffix(path, ".element.names"))
	}
	isCurName := func(v ssa.Value) bool {
		_, path, ok := loadPath(v)
		return ok && (path == "element.name" || strings.HasSuffix(path, ".element.name"))
	}
	leaf := func(v ssa.Value) tv {
		if g, k, _, ok := memberTestOf(v, 0); ok && g == table && sameKind(k, tableKind) {
			return tvTrue // both names are special elements
		}
		if bo, ok := v.(*ssa.BinOp); ok && (bo.Op == token.EQL || bo.Op == token.NEQ) {
			if isNamesElem(bo.X) && isCurName(bo.Y) || isNamesElem(bo.Y) && isCurName(bo.X) {
				return tvOf(bo.Op == token.NEQ) // a name other than the current one
			}
		}
		return tvUnknown
	}
	var start *ssa.BasicBlock
	for _, b := range T.Blocks {
		for _, in := range b.Instrs {
			if v, ok := in.(ssa.Value); ok && start == nil {
				if _, path, ok := loadPath(v); ok && path == "element.names" {
					start = b
				}
			}
		}
	}
	if start == nil {
		notDecided("the tag scanner does not read element.names itself")
		return
	}
	bad, n := "", 0
	w := &tvWalk{Leaf: leaf, Visits: 2, Limit: 200000}
	w.Step = func(in ssa.Instruction, st map[string]bool, val func(ssa.Value) tv) {
		// a name looked at before the body kind is decided (later loops over the names, such as the one for void
		// elements, are other rules' business)
		if v, ok := in.(ssa.Value); ok && isNamesElem(v) && !st["special"] {
			st["iter"] = true
		}
		if s, ok := in.(*ssa.Store); ok {
			if _, path := pathAddrRoot(s.Addr); path == "state" {
				if k, ok := constInt(s.Val); ok && k == stSpecial {
					st["special"] = true
				}
			}
		}
	}
	w.Ret = func(ret *ssa.Return, st map[string]bool, val func(ssa.Value) tv) {
		if !st["iter"] {
			return
		}
		n++
		if !isErrorContextReturn(ret, errState) && st["special"] && bad == "" {
			bad = p.Pos(ret.Pos())
		}
	}
	w.run(start, map[string]bool{})
	if w.Over {
		undec(p.Pos(T.Pos()), "too many paths")
		return
	}
	for _, x := range rules {
		r.Check(bad == "" && n > 0, x, cn, p.Pos(start.Instrs[0].Pos()), "two different special elements among the names a conditional left for the element end in an error context", "the tag scanner enters a special element body ("+bad+") although a conditional left another special element among the names: the body is left at the end tag of the current name only — `{{if .C}}<script{{else}}<textarea{{end}}>0</textarea>{{.X}}</script>` emits a plain string inside <script>")
	}
}
