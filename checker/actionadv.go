package main

// C01.R16: a context is advanced past an action only when the action has been given its sanitizers.
// escapeAction may return (1) the context it was given, unchanged; (2) an error context; (3) a context
// it has moved on (nudged out of a "before the value" / "after the name" state, marked as having a
// dynamic start, …) — and then the path must have gone through the call that records the sanitizers for
// the node. An action that prints nothing (a variable declaration) leaves the parser state where it was:
// moving on there makes the escaper believe a value has begun that the browser has not seen.

import (
	"fmt"
	"go/types"

	"golang.org/x/tools/go/ssa"
)

func checkActionAdvance(p *Program, r *Report, rule string) {
	fn := p.Func("template", "(*escaper).escapeAction")
	if fn == nil {
		r.Undec(rule, "template.escaper.escapeAction", "", "anchor not found")
		return
	}
	var ctxParam *ssa.Parameter
	for _, prm := range fn.Params {
		if isNamedType(prm.Type(), "context") {
			ctxParam = prm
		}
	}
	if ctxParam == nil {
		r.Undec(rule, "template.escaper.escapeAction", p.Pos(fn.Pos()), "no context parameter")
		return
	}
	stErr := stateConst(p, "stateError")
	// the call that records the sanitizers: a function of the module that is handed the action node together with
	// the list chosen for the context (the []string result of a call in this function)
	var nodeParam *ssa.Parameter
	for _, prm := range fn.Params {
		if pt, ok := prm.Type().(*types.Pointer); ok {
			if nt, ok := pt.Elem().(*types.Named); ok && nt.Obj().Pkg() != nil && nt.Obj().Pkg().Path() == "text/template/parse" && nt.Obj().Name() == "ActionNode" {
				nodeParam = prm
			}
		}
	}
	isChosenList := func(v ssa.Value) bool {
		ex, ok := v.(*ssa.Extract)
		if !ok {
			return false
		}
		if _, isCall := ex.Tuple.(*ssa.Call); !isCall {
			return false
		}
		sl, ok := ex.Type().Underlying().(*types.Slice)
		return ok && isStringish(sl.Elem())
	}
	var editCalls []ssa.Instruction
	for _, b := range fn.Blocks {
		for _, in := range b.Instrs {
			c, ok := in.(ssa.CallInstruction)
			if !ok || nodeParam == nil {
				continue
			}
			g := staticCallee(c.Common())
			if g == nil || g.Pkg != fn.Pkg {
				continue
			}
			hasNode, hasList := false, false
			for _, a := range c.Common().Args {
				if a == ssa.Value(nodeParam) {
					hasNode = true
				}
				if isChosenList(a) {
					hasList = true
				}
			}
			if hasNode && hasList {
				editCalls = append(editCalls, in)
			}
		}
	}
	if len(editCalls) == 0 {
		r.Undec(rule, "template.escaper.escapeAction", p.Pos(fn.Pos()), "the call that records the sanitizers was not found")
		return
	}
	pe := newPathExplorer(p, fn)
	n := 0
	seen := map[string]bool{}
	for _, pth := range pe.Paths() {
		ret, isRet := pth.End().(*ssa.Return)
		if !isRet {
			continue
		}
		v, zero, ok := pth.ResultValue(0)
		if !ok || zero {
			continue
		}
		kind := "moved"
		switch x := v.(type) {
		case *ssa.Parameter:
			if x == ctxParam {
				kind = "unchanged"
			}
		case *ssa.UnOp:
			// a fresh literal: an error context if its state field is the error state
			if al, ok := x.X.(*ssa.Alloc); ok {
				for _, ref := range *al.Referrers() {
					if fa, ok := ref.(*ssa.FieldAddr); ok && fieldName(fa.X.Type(), fa.Field) == "state" {
						for _, rr := range *fa.Referrers() {
							if st, ok := rr.(*ssa.Store); ok {
								if k, ok := constInt(st.Val); ok && k == stErr {
									kind = "error"
								}
							}
						}
					}
				}
			}
		}
		if kind == "moved" {
			// returned under a test that the (moved) context is the error state
			if pth.HasMatching(func(name string, val bool) bool {
				return val && len(name) > 4 && name[:4] == "(== " && containsAll(name, ".state "+fmt.Sprint(stErr))
			}) {
				kind = "error"
			}
		}
		// field stores into the parameter's local make it "moved" even if the last whole store is the parameter
		if kind == "unchanged" {
			for _, b := range pth.Blocks {
				for _, in := range b.Instrs {
					if st, ok := in.(*ssa.Store); ok {
						if fa, ok := st.Addr.(*ssa.FieldAddr); ok {
							if root := rootAlloc(fa); root != nil && allocHoldsParam(root, ctxParam) {
								kind = "moved"
							}
						}
					}
				}
			}
		}
		passed := false
		for _, ec := range editCalls {
			if pth.Passes(ec) {
				passed = true
			}
		}
		c := fmt.Sprintf("template.escaper.escapeAction#return:%s", kind)
		if kind == "moved" && !passed {
			c += ":without-sanitizers"
		}
		if seen[c] {
			continue
		}
		seen[c] = true
		n++
		switch kind {
		case "unchanged", "error":
			r.OK(rule, c, p.Pos(ret.Pos()), "returns the context it was given, or an error context")
		default:
			r.Check(passed, rule, c, p.Pos(ret.Pos()), "the context is moved on only after the sanitizers of the action were recorded", "escapeAction returns a context that it has moved on (nudged or modified) on a path that does not record sanitizers for the action: an action that prints nothing — {{$v := .V}} between an attribute's '=' and the next attribute — then leaves the escaper inside a value the browser has not begun, and the data of the next quoted attribute is read by the browser as attributes")
		}
	}
	if n == 0 {
		r.Undec(rule, "template.escaper.escapeAction", p.Pos(fn.Pos()), "no return path found")
	}
}

func containsAll(s, sub string) bool {
	for i := 0; i+len(sub) <= len(s); i++ {
		if s[i:i+len(sub)] == sub {
			return true
		}
	}
	return false
}

func rootAlloc(v ssa.Value) *ssa.Alloc {
	for i := 0; i < 6; i++ {
		switch x := v.(type) {
		case *ssa.FieldAddr:
			v = x.X
		case *ssa.Alloc:
			return x
		default:
			return nil
		}
	}
	return nil
}

func allocHoldsParam(al *ssa.Alloc, prm *ssa.Parameter) bool {
	for _, ref := range *al.Referrers() {
		if st, ok := ref.(*ssa.Store); ok && st.Addr == ssa.Value(al) && st.Val == ssa.Value(prm) {
			return true
		}
	}
	return false
}

func isNamedType(t types.Type, name string) bool {
	n, ok := t.(*types.Named)
	return ok && n.Obj().Name() == name
}
