package main

import (
	"fmt"
	"go/token"
	"go/types"
	"os"
	"sort"
	"strings"

	"golang.org/x/tools/go/ssa"
)

func init() { register("C08", "other", runC08) }

// nodeKinds computes the concrete node types the installed text/template/parse
// can put into a list: the closure of the values (*Tree).textOrAction returns.
func nodeKinds(p *Program) (map[string]bool, error) {
	sp := p.SSAPkgs["text/template/parse"]
	if sp == nil {
		return nil, fmt.Errorf("text/template/parse not loaded")
	}
	tree := sp.Type("Tree")
	if tree == nil {
		return nil, fmt.Errorf("parse.Tree not found")
	}
	sel := p.SSA.MethodSets.MethodSet(types.NewPointer(tree.Type())).Lookup(sp.Pkg, "textOrAction")
	if sel == nil {
		return nil, fmt.Errorf("(*parse.Tree).textOrAction not found in the installed toolchain")
	}
	root := p.SSA.MethodValue(sel)
	kinds := map[string]bool{}
	seenFn := map[*ssa.Function]bool{}
	seenVal := map[ssa.Value]bool{}
	var fromFn func(f *ssa.Function, idx int)
	var fromVal func(v ssa.Value)
	fromVal = func(v ssa.Value) {
		if v == nil || seenVal[v] {
			return
		}
		seenVal[v] = true
		switch x := v.(type) {
		case *ssa.MakeInterface:
			t := x.X.Type()
			if pt, ok := t.(*types.Pointer); ok {
				t = pt.Elem()
			}
			if n, ok := t.(*types.Named); ok {
				kinds[n.Obj().Name()] = true
			}
		case *ssa.ChangeInterface:
			fromVal(x.X)
		case *ssa.Phi:
			for _, e := range x.Edges {
				fromVal(e)
			}
		case *ssa.Call:
			if f := staticCallee(x.Common()); f != nil && f.Blocks != nil {
				fromFn(f, 0)
			}
		case *ssa.Extract:
			if c, ok := x.Tuple.(*ssa.Call); ok {
				if f := staticCallee(c.Common()); f != nil && f.Blocks != nil {
					fromFn(f, x.Index)
				}
			}
		case *ssa.Const:
		case *ssa.UnOp:
			// defer-spilled result: a load of a local; follow every store into it
			if al, ok := x.X.(*ssa.Alloc); ok {
				for _, ref := range *al.Referrers() {
					if st, ok := ref.(*ssa.Store); ok && st.Addr == ssa.Value(al) {
						fromVal(st.Val)
					}
				}
				return
			}
			kinds["?"+fmt.Sprintf("%T", v)] = true
		default:
			kinds["?"+fmt.Sprintf("%T", v)] = true
		}
	}
	fromFn = func(f *ssa.Function, idx int) {
		if seenFn[f] {
			return
		}
		seenFn[f] = true
		for _, ret := range Returns(f) {
			if idx < len(ret.Results) {
				if _, isIface := ret.Results[idx].Type().Underlying().(*types.Interface); isIface {
					fromVal(ret.Results[idx])
				} else if pt, ok := ret.Results[idx].Type().(*types.Pointer); ok {
					if n, ok := pt.Elem().(*types.Named); ok {
						kinds[n.Obj().Name()] = true
					}
				}
			}
		}
	}
	fromFn(root, 0)
	return kinds, nil
}

func reachableRepoFuncs(p *Program, roots []*ssa.Function) map[*ssa.Function]bool {
	seen := map[*ssa.Function]bool{}
	seenGlobalPkg := map[*ssa.Package]bool{}
	var visit func(f *ssa.Function)
	visit = func(f *ssa.Function) {
		if f == nil || seen[f] || f.Blocks == nil || f.Pkg == nil || !strings.HasPrefix(f.Pkg.Pkg.Path(), modulePath) {
			if f != nil && f.Blocks != nil && f.Pkg == nil && f.Parent() != nil && !seen[f] {
				// anonymous function
			} else {
				return
			}
		}
		seen[f] = true
		for _, a := range f.AnonFuncs {
			visit(a)
		}
		for _, b := range f.Blocks {
			for _, in := range b.Instrs {
				for _, op := range in.Operands(nil) {
					if g, ok := (*op).(*ssa.Function); ok {
						visit(g)
					}
					if mc, ok := (*op).(*ssa.MakeClosure); ok {
						visit(mc.Fn.(*ssa.Function))
					}
					// a package-level variable of the module: the functions its package initialiser stores anywhere
					// (dispatch tables such as the state → transition function table are called through it)
					if gl, ok := (*op).(*ssa.Global); ok && gl.Pkg != nil && strings.HasPrefix(gl.Pkg.Pkg.Path(), modulePath) && !seenGlobalPkg[gl.Pkg] {
						if holdsFuncs(gl.Type()) {
							seenGlobalPkg[gl.Pkg] = true
							if initFn := gl.Pkg.Func("init"); initFn != nil {
								for _, ib := range initFn.Blocks {
									for _, ii := range ib.Instrs {
										if st, ok := ii.(*ssa.Store); ok {
											switch y := st.Val.(type) {
											case *ssa.Function:
												visit(y)
											case *ssa.MakeClosure:
												visit(y.Fn.(*ssa.Function))
											}
										}
									}
								}
							}
						}
					}
				}
			}
		}
	}
	for _, r := range roots {
		visit(r)
	}
	return seen
}

// the triage table of explicit panic sites reachable from the total API,
// keyed by function and message prefix (DESIGN C08.R3).
var triagedPanics = map[string]string{
	"(*escaper).escapeText|infinite loop from":                                                        "internal invariant: every transition function consumes input or changes state (progress); not decided",
	"(*escaper).editActionNode|node %s shared between templates":                                      "internal invariant: a node is edited once per commit; not decided",
	"(*escaper).editTemplateNode|node %s shared between templates":                                    "internal invariant: a node is edited once per commit; not decided",
	"(*escaper).editTextNode|node %s shared between templates":                                        "internal invariant: a node is edited once per commit; not decided",
	"(*escaper).commit|error adding derived template":                                                 "internal invariant: derived names are unique and their trees non-nil; not decided",
	"(*escaper).arbitraryTemplate|no templates in name space":                                         "internal invariant: a name space always contains its root template; not decided",
	"(*Template).lookupAndEscapeTemplate|html/template internal error: template escaping out of sync": "internal invariant: the safe and the text template sets have the same members; not decided",
}

func panicMessage(pv *Prov, v ssa.Value) string {
	e := pv.Of(unIface(v))
	msg := ""
	e.Walk(func(x *Expr) bool {
		if s, ok := x.IsConstString(); ok && msg == "" {
			msg = s
		}
		return true
	})
	return msg
}

func runC08(p *Program, r *Report) {
	r.Trusted = []string{"go/types + go/ssa", "the installed text/template/parse (its node kinds are re-derived from its SSA on every run)", "text/template turns sanitizer errors into execution errors and recovers its own panics"}
	r.NotDecided = []string{"termination (recursion is bounded by the memo, the text loop by the progress panic — argued, not decided)", "implicit panics other than the nullable parse tree and unchecked type assertions (index, nil map, division)", "the seven triaged internal-invariant panics"}
	r.Explain = "Node-kind exhaustiveness: the concrete node types the installed parser can produce are computed from its SSA and each must reach a return (not a panic) in the escaper's node dispatch; nullable-tree discipline: every dereference of a template's parse tree is dominated by a nil test of that tree (or of its mirror field), comes from a fresh copy of a tested tree, or — for parameters — every caller satisfies this; explicit panic and log.Fatal sites reachable from the total API are inventoried against a triage table; unchecked type assertions in the same reachable set are inventoried."
	for _, m := range []struct {
		r string
		n int
	}{{"C08.R1", 9}, {"C08.R2", 5}, {"C08.R3", 5}, {"C08.R6", 4}, {"C08.R8", 8}, {"C08.R10", 1}} {
		r.Min(m.r, m.n)
	}
	pv := NewProv(p)
	pv.NoInline = true
	// ---- R1 node kinds ---------------------------------------------------------------
	kinds, err := nodeKinds(p)
	esc := p.Func("template", "(*escaper).escape")
	if err != nil || esc == nil {
		r.Undec("C08.R1", "template.(*escaper).escape", "", fmt.Sprintf("anchor not found (%v)", err))
	} else {
		kinds["ListNode"] = true
		var ks []string
		for k := range kinds {
			if !strings.HasPrefix(k, "?") && !types.NewVar(0, nil, k, nil).Exported() {
				continue // elseNode / endNode never end up in a list
			}
			ks = append(ks, k)
		}
		sort.Strings(ks)
		r.Analysed["node_kinds_of_installed_parser"] = ks
		pe := newPathExplorer(p, esc)
		paths := pe.Paths()
		// assertion atoms: typeassert(...,T)#1
		assertType := func(name string) (string, bool) {
			i := strings.Index(name, "typeassert:")
			if i < 0 {
				return "", false
			}
			rest := name[i+len("typeassert:"):]
			j := strings.Index(rest, "(")
			if j < 0 {
				return "", false
			}
			t := rest[:j]
			t = strings.TrimPrefix(t, "*")
			if k := strings.LastIndex(t, "."); k >= 0 {
				t = t[k+1:]
			}
			return t, true
		}
		for _, k := range ks {
			c := "template.(*escaper).escape#node-kind:" + k
			if strings.HasPrefix(k, "?") {
				r.Undec("C08.R1", c, "", "node-kind closure of the parser contains a value of unexpected form")
				continue
			}
			outcome := map[string]bool{}
			for _, pth := range paths {
				possible := true
				for name, val := range pth.Atoms {
					t, ok := assertType(name)
					if !ok {
						continue
					}
					if val != (t == k) {
						possible = false
					}
				}
				if !possible {
					continue
				}
				switch pth.End().(type) {
				case *ssa.Panic:
					outcome["panic"] = true
				default:
					outcome["return"] = true
				}
			}
			if k == "CommentNode" && outcome["panic"] {
				// only produced with parse.ParseComments, which neither the repository nor text/template sets
				r.Check(!writesParseMode(p), "C08.R1", c, p.Pos(esc.Pos()), "comment nodes are not produced: nothing sets parse.Tree.Mode / ParseComments", "comment nodes can be produced (ParseComments is set) and have no case in the escaper")
				continue
			}
			r.Check(!outcome["panic"] && outcome["return"], "C08.R1", c, p.Pos(esc.Pos()), "reaches a return of the node dispatch", "a "+k+" produced by the installed parser reaches panic in the node dispatch (Execute panics instead of returning an error)")
		}
	}
	// ---- R2 nullable tree -------------------------------------------------------------
	checkNullableTree(p, r, pv)
	// ---- R3 explicit panic inventory ----------------------------------------------------
	tsp := p.SSAPkg("template")
	var roots []*ssa.Function
	excluded := map[string]bool{"Must": true, "MustParseAndExecuteToHTML": true, "Option": true, "Funcs": true}
	for _, f := range p.SrcFuncs() {
		if f.Pkg != tsp || f.Object() == nil || !f.Object().Exported() || f.Parent() != nil {
			continue
		}
		if excluded[f.Name()] || strings.Contains(f.Name(), "FromConstant") {
			continue
		}
		// methods of unexported types are not API
		if recv := f.Signature.Recv(); recv != nil {
			t := recv.Type()
			if pt, ok := t.(*types.Pointer); ok {
				t = pt.Elem()
			}
			if n, ok := t.(*types.Named); ok && !n.Obj().Exported() {
				continue
			}
		}
		roots = append(roots, f)
	}
	if pl, err := loadPolicy(p); err == nil {
		for _, f := range pl.Funcs {
			roots = append(roots, f) // called through reflection by text/template
		}
	}
	reach := reachableRepoFuncs(p, roots)
	r.Analysed["total_api_roots"] = len(roots)
	r.Analysed["reachable_repo_functions"] = len(reach)
	seenTriaged := map[string]bool{}
	var fl []*ssa.Function
	for f := range reach {
		fl = append(fl, f)
	}
	sort.Slice(fl, func(i, j int) bool { return fnName(fl[i]) < fnName(fl[j]) })
	for _, f := range fl {
		short := strings.TrimPrefix(fnName(f), pkgTemplate+".")
		short = strings.Replace(short, "(*"+pkgTemplate+".", "(*", 1)
		for _, b := range f.Blocks {
			for _, in := range b.Instrs {
				msg, isP := "", false
				switch x := in.(type) {
				case *ssa.Panic:
					msg, isP = panicMessage(pv, x.X), true
				case *ssa.Call:
					if g := staticCallee(x.Common()); g != nil && strings.HasPrefix(fnName(g), "log.Fatal") {
						msg, isP = "log.Fatal", true
					}
				}
				if !isP {
					continue
				}
				key := ""
				for k := range triagedPanics {
					parts := strings.SplitN(k, "|", 2)
					if parts[0] == short && strings.HasPrefix(msg, parts[1]) {
						key = k
					}
				}
				if key == "" && msg != "" && msg != "log.Fatal" {
					// the statement moved to another function (a step extracted into a helper, a method of an embedded
					// type): the invariant it guards is identified by its message
					for k := range triagedPanics {
						parts := strings.SplitN(k, "|", 2)
						if strings.HasPrefix(msg, parts[1]) && (key == "" || seenTriaged[key]) {
							key = k
						}
					}
				}
				c := "panic-site:" + short + "|" + msg
				if key == "" && isExhaustiveStateDispatcher(p, f) {
					r.OK("C08.R3", c, p.Pos(in.Pos()), "unreachable: the function dispatches on the tokenizer state and has a case for every declared state")
					continue
				}
				if key != "" {
					seenTriaged[key] = true
					r.OK("C08.R3", c, p.Pos(in.Pos()), "triaged: "+triagedPanics[key])
				} else {
					r.Viol("C08.R3", c, p.Pos(in.Pos()), "an explicit panic/log.Fatal site reachable from the total API is not in the triage table", "")
				}
			}
		}
	}
	// ---- R5 no self-deadlock (a hang is not a reported problem) ------------------------------------------
	checkNoReentrantLock(p, r, "C08.R5")
	checkErrDerefGuarded(p, r, "C08.R11", reach)
	r.Min("C08.R12", 1)
	r.Min("C08.R13", 2)
	checkNoDisprovedBounds(p, r, "C08.R13", "template", "internal/safehtmlutil")
	checkRangeReentryAgreement(p, r, "C08.R12") // the clause #never-merges is a panic clause
	checkParsedTextGoesToRegisteredMember(p, r, "C08.R10")
	checkTreeEmptiedOnlyOnBodyFailure(p, r, "C08.R6")
	// ---- R4 unchecked type assertions ----------------------------------------------------
	n := 0
	for _, f := range fl {
		if f.Pkg == nil || (f.Pkg != tsp && f.Pkg.Pkg.Path() != pkgUtil) {
			continue
		}
		for _, b := range f.Blocks {
			for _, in := range b.Instrs {
				if ta, ok := in.(*ssa.TypeAssert); ok && !ta.CommaOk {
					n++
					r.Viol("C08.R4", "unchecked-assertion:"+fnName(f), p.Pos(ta.Pos()), "an unchecked type assertion (panics on mismatch) is reachable from the total API: "+ta.String(), "")
				}
			}
		}
	}
	if n == 0 {
		r.OK("C08.R4", "template#unchecked-assertions", "", "no unchecked type assertion in the reachable functions of packages template and safehtmlutil")
	}
	// ---- R7 indices that walk backwards -----------------------------------------------------
	// Implicit index panics are not decided in general. One shape is: an index that a loop decrements is used to
	// index although neither the loop condition nor a dominating test bounds it from below.
	nb := 0
	for _, f := range fl {
		if f.Pkg == nil || (f.Pkg != tsp && f.Pkg.Pkg.Path() != pkgUtil) {
			continue
		}
		for _, b := range f.Blocks {
			for _, in := range b.Instrs {
				var idx ssa.Value
				switch x := in.(type) {
				case *ssa.Index:
					idx = x.Index
				case *ssa.IndexAddr:
					idx = x.Index
				case *ssa.Lookup:
					if isStringish(x.X.Type()) {
						idx = x.Index
					}
				}
				ph, ok := idx.(*ssa.Phi)
				if !ok {
					continue
				}
				// decremented around a loop
				dec := false
				for _, e := range ph.Edges {
					if bo, ok := e.(*ssa.BinOp); ok && bo.Op == token.SUB && bo.X == ssa.Value(ph) {
						if k, ok := constInt(bo.Y); ok && k > 0 {
							dec = true
						}
					}
				}
				if !dec {
					continue
				}
				nb++
				// bounded from below: a guard on the way compares the index (or index±const) with something using >, >=, <, <=, !=
				bounded := false
				isIdx := func(v ssa.Value) bool {
					if v == ssa.Value(ph) {
						return true
					}
					if bo, ok := v.(*ssa.BinOp); ok && (bo.Op == token.ADD || bo.Op == token.SUB) && bo.X == ssa.Value(ph) {
						return true
					}
					return false
				}
				for _, g := range GuardsOf(b) {
					bo, ok := g.Cond.(*ssa.BinOp)
					if !ok {
						continue
					}
					switch bo.Op {
					case token.GTR, token.GEQ, token.LSS, token.LEQ, token.NEQ:
						if isIdx(bo.X) || isIdx(bo.Y) {
							bounded = true
						}
					}
				}
				c := fmt.Sprintf("backward-index:%s@%s", strings.TrimPrefix(fnName(f), pkgTemplate+"."), p.Pos(in.Pos()))
				r.Check(bounded, "C08.R7", c, p.Pos(in.Pos()), "an index that is decremented in a loop is used only under a comparison that bounds it", "an index that a loop decrements is used without any test that bounds it from below: the loop can walk past the start of the slice and panic with an index out of range (reachable from Execute)")
			}
		}
	}
	if nb == 0 {
		r.OK("C08.R7", "template#backward-indices", "", "no index in the reachable functions is decremented by a loop")
	}
	// ---- R8 constant indices ------------------------------------------------------------------
	// x[k] with a constant k on a slice or string needs len(x) > k; the test must dominate the access.
	nc := 0
	perFn := map[string]int{}
	for _, f := range fl {
		if f.Pkg == nil || (f.Pkg != tsp && f.Pkg.Pkg.Path() != pkgUtil) {
			continue
		}
		for _, b := range f.Blocks {
			for _, in := range b.Instrs {
				var x, idx ssa.Value
				switch y := in.(type) {
				case *ssa.IndexAddr:
					x, idx = y.X, y.Index
				case *ssa.Lookup:
					if isStringish(y.X.Type()) {
						x, idx = y.X, y.Index
					}
				}
				if x == nil {
					continue
				}
				if _, isSlice := x.Type().Underlying().(*types.Slice); !isSlice && !isStringish(x.Type()) {
					continue // arrays are bounded by their type
				}
				k, isConst := constInt(idx)
				if !isConst {
					continue
				}
				nc++
				why, ok := lengthEstablished(x, k, b)
				if !ok && k == 0 {
					// triaged: text/template/parse never builds a command without arguments (parse.Tree.command reports
					// "empty command" otherwise), so Args[0] of a parsed CommandNode exists
					if ld, isLoad := x.(*ssa.UnOp); isLoad {
						if fa, isFA := ld.X.(*ssa.FieldAddr); isFA {
							if pt, isPtr := fa.X.Type().Underlying().(*types.Pointer); isPtr {
								if nt, isNamed := pt.Elem().(*types.Named); isNamed && nt.Obj().Pkg() != nil && nt.Obj().Pkg().Path() == "text/template/parse" && nt.Obj().Name() == "CommandNode" && fieldName(fa.X.Type(), fa.Field) == "Args" {
									why, ok = "parser invariant: a parsed command has at least one argument", true
								}
							}
						}
					}
				}
				name := strings.TrimPrefix(fnName(f), pkgTemplate+".")
				perFn[name]++
				c := fmt.Sprintf("const-index:%s#%d[%d]", name, perFn[name], k)
				r.Check(ok, "C08.R8", c, p.Pos(in.Pos()), why, fmt.Sprintf("element %d is read although no test on the way shows that there are more than %d elements: the access panics with an index out of range for a shorter value (reachable from the total API)", k, k))
			}
		}
	}
	r.Analysed["constant_index_sites"] = nc
	// ---- R9 an index tested against the length with the wrong comparison ---------------------------
	// x[e] under a test "e <= len(x)" (and no stronger one): the code shows that it believes the index needs a
	// bounds test, and the test it makes admits e == len(x).
	nw := 0
	for _, f := range fl {
		if f.Pkg == nil || (f.Pkg != tsp && f.Pkg.Pkg.Path() != pkgUtil) {
			continue
		}
		for _, b := range f.Blocks {
			for _, in := range b.Instrs {
				var x, idx ssa.Value
				switch y := in.(type) {
				case *ssa.IndexAddr:
					x, idx = y.X, y.Index
				case *ssa.Lookup:
					if isStringish(y.X.Type()) {
						x, idx = y.X, y.Index
					}
				}
				if x == nil {
					continue
				}
				if _, isConst := constInt(idx); isConst {
					continue
				}
				if _, isSlice := x.Type().Underlying().(*types.Slice); !isSlice && !isStringish(x.Type()) {
					continue
				}
				weak, strong := false, false
				if os.Getenv("R9_DEBUG") != "" && strings.Contains(f.Name(), "eatTagName") {
					fmt.Println("R9 site", in, "guards", len(GuardsOf(b)))
				}
				for _, g := range GuardsOf(b) {
					bo, ok := g.Cond.(*ssa.BinOp)
					if !ok {
						continue
					}
					l, rr, op := bo.X, bo.Y, bo.Op
					if a, ok := isLenOf(l); ok && a == x {
						// len(x) op e  ->  e op' len(x)
						l, rr = rr, l
						switch op {
						case token.GTR:
							op = token.LSS
						case token.GEQ:
							op = token.LEQ
						case token.LSS:
							op = token.GTR
						case token.LEQ:
							op = token.GEQ
						}
					}
					a, ok := isLenOf(rr)
					if !ok || a != x || !sameIntExpr(l, idx, 0) {
						continue
					}
					if !g.Pol {
						switch op {
						case token.GTR:
							op = token.LEQ
						case token.GEQ:
							op = token.LSS
						case token.LSS:
							op = token.GEQ
						case token.LEQ:
							op = token.GTR
						}
					}
					switch op {
					case token.LSS:
						strong = true
					case token.LEQ:
						weak = true
					}
				}
				if weak || strong {
					nw++
				}
				if weak && !strong {
					name := strings.TrimPrefix(fnName(f), pkgTemplate+".")
					r.Viol("C08.R9", "index-tested-with-leq:"+name, p.Pos(in.Pos()), "the index is tested against the length with <= before it is used: for index == len the access panics with an index out of range (reachable from the total API; a text node that ends right at this position triggers it)", "")
				}
			}
		}
	}
	if nw > 0 {
		r.OK("C08.R9", "template#indices-tested-against-length", "", fmt.Sprintf("%d variable indices are used under a test of that same index against the length; none of the tests admits index == length", nw))
	}
}

// sameIntExpr: a and b are the same integer expression (the same value, or the same operator on the same operands).
func sameIntExpr(a, b ssa.Value, depth int) bool {
	if a == b {
		return true
	}
	if depth > 3 {
		return false
	}
	if ka, ok := constInt(a); ok {
		kb, ok2 := constInt(b)
		return ok2 && ka == kb
	}
	x, ok1 := a.(*ssa.BinOp)
	y, ok2 := b.(*ssa.BinOp)
	if ok1 && ok2 && x.Op == y.Op {
		return sameIntExpr(x.X, y.X, depth+1) && sameIntExpr(x.Y, y.Y, depth+1)
	}
	// len(v) of one and the same value
	if la, ok := isLenOf(a); ok {
		if lb, ok := isLenOf(b); ok {
			return la == lb
		}
	}
	return false
}

// lengthEstablished: on every path to block b the slice or string x is known to have more than k elements.
func lengthEstablished(x ssa.Value, k int64, b *ssa.BasicBlock) (string, bool) {
	// a literal built in place, a slice of a fixed array
	if sl, ok := x.(*ssa.Slice); ok {
		if al, ok := sl.X.(*ssa.Alloc); ok && sl.Low == nil && sl.High == nil {
			if arr, ok := al.Type().Underlying().(*types.Pointer).Elem().Underlying().(*types.Array); ok && arr.Len() > k {
				return "a literal with enough elements", true
			}
		}
	}
	if c, ok := x.(*ssa.Const); ok {
		if s, isStr := constString(c); isStr && int64(len(s)) > k {
			return "a constant that is long enough", true
		}
	}
	sameVal := func(v ssa.Value) bool {
		if v == x {
			return true
		}
		// two loads of one field of one object, in a function that never stores to that field
		a, ok1 := v.(*ssa.UnOp)
		c, ok2 := x.(*ssa.UnOp)
		if ok1 && ok2 && a.Op == token.MUL && c.Op == token.MUL {
			fa, ok3 := a.X.(*ssa.FieldAddr)
			fc, ok4 := c.X.(*ssa.FieldAddr)
			if ok3 && ok4 && fa.Field == fc.Field && (fa.X == fc.X || sameLoad(fa.X, fc.X)) && !storesToFieldIn(b.Parent(), fa) {
				return true
			}
		}
		return false
	}
	lenOfX := func(v ssa.Value) bool {
		a, ok := isLenOf(v)
		return ok && sameVal(a)
	}
	for _, g := range GuardsOf(b) {
		switch c := g.Cond.(type) {
		case *ssa.BinOp:
			l, r := c.X, c.Y
			op := c.Op
			if lenOfX(r) {
				// k op len  ->  len op' k
				l, r = r, l
				switch op {
				case token.LSS:
					op = token.GTR
				case token.LEQ:
					op = token.GEQ
				case token.GTR:
					op = token.LSS
				case token.GEQ:
					op = token.LEQ
				}
			}
			if !lenOfX(l) {
				continue
			}
			n, ok := constInt(r)
			if !ok {
				continue
			}
			if !g.Pol {
				switch op {
				case token.LSS:
					op = token.GEQ
				case token.LEQ:
					op = token.GTR
				case token.GTR:
					op = token.LEQ
				case token.GEQ:
					op = token.LSS
				case token.EQL:
					op = token.NEQ
				case token.NEQ:
					op = token.EQL
				}
			}
			switch op {
			case token.GTR:
				if n >= k {
					return fmt.Sprintf("under len > %d", n), true
				}
			case token.GEQ:
				if n > k {
					return fmt.Sprintf("under len >= %d", n), true
				}
			case token.EQL:
				if n > k {
					return fmt.Sprintf("under len == %d", n), true
				}
			case token.NEQ:
				if n == 0 && k == 0 {
					return "under len != 0", true
				}
			}
		case *ssa.Call:
			if f := staticCallee(c.Common()); f != nil && g.Pol && len(c.Common().Args) == 2 {
				switch fnName(f) {
				case "strings.HasPrefix", "bytes.HasPrefix", "strings.HasSuffix", "bytes.HasSuffix":
					if sameVal(c.Common().Args[0]) {
						if s, ok := constString(c.Common().Args[1]); ok && int64(len(s)) > k {
							return "under a prefix/suffix test with a long enough constant", true
						}
					}
				}
			}
		}
	}
	return "", false
}

// writesParseMode: does anything in the repository or text/template set
// parse.Tree.Mode or mention parse.ParseComments?
func writesParseMode(p *Program) bool {
	check := func(f *ssa.Function) bool {
		for _, b := range f.Blocks {
			for _, in := range b.Instrs {
				if st, ok := in.(*ssa.Store); ok {
					if fa, ok := st.Addr.(*ssa.FieldAddr); ok && isNamed(fa.X.Type(), "text/template/parse", "Tree") && fieldName(fa.X.Type(), fa.Field) == "Mode" {
						if k, ok := constInt(st.Val); !ok || k != 0 {
							return true
						}
					}
				}
			}
		}
		return false
	}
	for _, f := range p.SrcFuncs() {
		if check(f) {
			return true
		}
	}
	if sp := p.SSAPkgs["text/template"]; sp != nil {
		for _, m := range sp.Members {
			if f, ok := m.(*ssa.Function); ok && f.Blocks != nil && check(f) {
				return true
			}
		}
	}
	return false
}

// ---- nullable tree ---------------------------------------------------------------------

// treeExpr: if v is a *parse.Tree loaded from the Tree field of a template,
// returns the canonical "owner" string (the template expression, with the
// ".text" hop removed so that Template.Tree and Template.text.Tree coincide).
func treeOwner(pv *Prov, v ssa.Value) (owner string, e *Expr, ok bool) {
	if !isNamed(v.Type(), "text/template/parse", "Tree") {
		return "", nil, false
	}
	e = pv.Of(v)
	if e.Op != "field" || e.Name != "Tree" || len(e.Args) != 1 {
		return "", e, false
	}
	base := e.Args[0]
	if base.Op == "field" && base.Name == "text" && len(base.Args) == 1 {
		base = base.Args[0]
	}
	return base.String(), e, true
}

func checkNullableTree(p *Program, r *Report, pv *Prov) {
	tsp := p.SSAPkg("template")
	// the field is nullable: somewhere nil is stored into it
	nilStores := 0
	for _, f := range p.SrcFuncs() {
		if f.Pkg != tsp {
			continue
		}
		for _, st := range append(storesToField(f, "text/template", "Template", "Tree"), storesToField(f, pkgTemplate, "Template", "Tree")...) {
			if isNilConst(st.Val) {
				nilStores++
			}
		}
	}
	r.Analysed["nil_stores_to_Tree"] = nilStores
	type site struct {
		fn    *ssa.Function
		in    ssa.Instruction
		tree  ssa.Value
		owner string
	}
	var sites []site
	for _, f := range p.SrcFuncs() {
		if f.Pkg != tsp {
			continue
		}
		for _, b := range f.Blocks {
			for _, in := range b.Instrs {
				var x ssa.Value
				switch d := in.(type) {
				case *ssa.FieldAddr:
					x = d.X
				case *ssa.Field:
					x = d.X
				default:
					continue
				}
				if !isNamed(x.Type(), "text/template/parse", "Tree") {
					continue
				}
				if _, isPtr := x.Type().(*types.Pointer); !isPtr {
					continue
				}
				owner, _, ok := treeOwner(pv, x)
				if !ok {
					owner = "?" + pv.Of(x).String()
				}
				sites = append(sites, site{f, in, x, owner})
			}
		}
	}
	// guardedAt: on every path into block b, "owner's tree != nil" has been tested
	guardedAt := func(b *ssa.BasicBlock, owner string) bool {
		return allPathsGuard(pv, b, func(a Atom) bool {
			if a.Pol || a.E.Op != "binop" || a.E.Name != "==" || a.E.Args[1].Op != "const" || a.E.Args[1].Const != nil {
				return false
			}
			o, _, ok := treeOwner(pv, a.E.Args[0].Val)
			return ok && o == owner
		}, 0)
	}
	var okOwnerAt func(f *ssa.Function, b *ssa.BasicBlock, tmplVal ssa.Value, depth int) (bool, string)
	// okOwnerAt: the template value tmplVal (a *text/template.Template or *Template) has a non-nil tree at block b
	okOwnerAt = func(f *ssa.Function, b *ssa.BasicBlock, tmplVal ssa.Value, depth int) (bool, string) {
		if depth > 4 {
			return false, "caller chain too deep"
		}
		e := pv.Of(tmplVal)
		if e.Op == "field" && e.Name == "text" && len(e.Args) == 1 {
			e = e.Args[0]
		}
		owner := e.String()
		if guardedAt(b, owner) {
			return true, "nil test of " + owner + ".Tree on every path"
		}
		switch x := tmplVal.(type) {
		case *ssa.UnOp:
			// a parameter captured by a closure lives in a heap cell with a single store
			if al, ok := x.X.(*ssa.Alloc); ok {
				if st := singleStoreLoose(al); st != nil {
					if _, isParam := st.Val.(*ssa.Parameter); isParam {
						return okOwnerAt(f, b, st.Val, depth)
					}
				}
			}
		case *ssa.Phi:
			for i, ed := range x.Edges {
				if ok, why := okOwnerAt(f, x.Block().Preds[i], ed, depth+1); !ok {
					return false, why
				}
			}
			return true, "every alternative has a non-nil tree"
		case *ssa.Call:
			// recorded exception: a context-specific copy looked up by its mangled name. Such copies are
			// created (below) with a copy of a tested tree and are never emptied: escapeTemplate stores
			// nil only into members of nameSpace.set, which never contains mangled names.
			if g := staticCallee(x.Common()); g != nil && g == findEscaperTemplateLookup(p) && len(x.Common().Args) == 2 {
				if mc, ok := x.Common().Args[1].(*ssa.Call); ok {
					if mg := staticCallee(mc.Common()); mg != nil && mg == findMangle(p) {
						differs := false
						for _, gd := range GuardsOf(b) {
							if bo, ok := gd.Cond.(*ssa.BinOp); ok && bo.X == ssa.Value(mc) && ((bo.Op.String() == "!=") == gd.Pol) {
								differs = true
							}
						}
						for _, gd := range GuardsOf(x.Block()) {
							if bo, ok := gd.Cond.(*ssa.BinOp); ok && bo.X == ssa.Value(mc) && ((bo.Op.String() == "!=") == gd.Pol) {
								differs = true
							}
						}
						if differs {
							return true, "existing context-specific copy (mangled name), never emptied"
						}
					}
				}
			}
			// fresh: text/template.New(...) whose Tree is stored from Copy() of a tested tree
			if g := staticCallee(x.Common()); g != nil && fnName(g) == "text/template.New" {
				for _, st := range storesToField(f, "text/template", "Template", "Tree") {
					fa := st.Addr.(*ssa.FieldAddr)
					if fa.X != ssa.Value(x) {
						continue
					}
					if cp, ok := isCallTo(st.Val, "(*text/template/parse.Tree).Copy"); ok {
						srcOwner, _, ok := treeOwner(pv, cp.Common().Args[0])
						if ok && guardedAt(st.Block(), srcOwner) {
							return true, "fresh template with a copy of a tested tree"
						}
						return false, "fresh template whose tree is a copy of an untested tree (" + srcOwner + ")"
					}
				}
			}
		case *ssa.Parameter:
			// every caller in the package
			idx := -1
			for i, prm := range f.Params {
				if prm == x {
					idx = i
				}
			}
			n := 0
			for _, g := range p.SrcFuncs() {
				if g.Pkg != tsp {
					continue
				}
				for _, gb := range g.Blocks {
					for _, in := range gb.Instrs {
						c, ok := in.(*ssa.Call)
						if !ok || staticCallee(c.Common()) != f {
							continue
						}
						n++
						if ok2, why := okOwnerAt(g, gb, c.Common().Args[idx], depth+1); !ok2 {
							return false, fmt.Sprintf("caller %s (%s): %s", fnName(g), p.Pos(c.Pos()), why)
						}
					}
				}
			}
			if n > 0 {
				return true, fmt.Sprintf("all %d callers pass a template with a tested tree", n)
			}
			return false, "parameter of a function without callers in the package"
		}
		return false, "no nil test of " + owner + ".Tree dominates"
	}
	for _, s := range sites {
		c := fmt.Sprintf("%s#deref-tree-of:%s", fnName(s.fn), s.owner)
		pos := p.Pos(s.in.Pos())
		// owner value: the template whose Tree was loaded
		var tmplVal ssa.Value
		if u, ok := s.tree.(*ssa.UnOp); ok {
			if fa, ok := u.X.(*ssa.FieldAddr); ok {
				tmplVal = fa.X
			}
		}
		if tmplVal == nil {
			r.Undec("C08.R2", c, pos, "the dereferenced tree is not a load of a template's Tree field")
			continue
		}
		// special case: tree just stored in the same function from a non-nil source (Clone: x.Tree = x.Tree.Copy() of text/template's clone)
		ok, why := okOwnerAt(s.fn, s.in.Block(), tmplVal, 0)
		r.Check(ok, "C08.R2", c, pos, "parse tree dereferenced only when non-nil: "+why, "the parse tree of a template is dereferenced although escapeTemplate sets it to nil on failure: "+why)
	}
	if len(sites) == 0 {
		r.Undec("C08.R2", "template#tree-dereferences", "", "no dereference of a template's parse tree found")
	}
}

// checkTreeEmptiedOnlyOnBodyFailure (C08.R6): the tree of a template may be emptied only on
// paths where the analysis of its body reported an error. A template whose body was
// analysed without error but which ends outside the text context is a legitimate callee:
// other templates may already have been executed with it, and text/template dereferences
// the callee's tree without a nil test (its recover() re-panics runtime errors).
func checkTreeEmptiedOnlyOnBodyFailure(p *Program, r *Report, rule string) {
	et := p.Func("template", "escapeTemplate")
	if et == nil {
		r.Undec(rule, "template.escapeTemplate", "", "anchor not found")
		return
	}
	pe := newPathExplorer(p, et)
	pe.Inline = true
	paths := pe.Paths()
	var nilStores []ssa.Instruction
	for _, g := range pe.Funcs() {
		for _, st := range storesToField(g, "text/template", "Template", "Tree") {
			if isNilConst(st.Val) {
				nilStores = append(nilStores, st)
			}
		}
		for _, st := range storesToField(g, pkgTemplate, "Template", "Tree") {
			if isNilConst(st.Val) {
				nilStores = append(nilStores, st)
			}
		}
	}
	n := 0
	for _, pth := range paths {
		if _, ok := pth.End().(*ssa.Return); !ok {
			continue
		}
		n++
		bodyClean := pth.HasMatching(func(name string, val bool) bool {
			return val && strings.HasPrefix(name, "(== ") && strings.Contains(name, "escapeTree(") && strings.HasSuffix(strings.Split(name, "@")[0], ".err nil)")
		})
		c := fmt.Sprintf("template.escapeTemplate#path[%s]#tree", shortPath(pth))
		pos := p.Pos(pth.End().Pos())
		if bodyClean && pathPassesAny(pth, nilStores) {
			r.Viol(rule, c, pos, "the parse tree of a template whose body was analysed without error (it merely ends outside the text context) is emptied: templates that call it, and were executed before, dereference the nil tree inside text/template and panic",
				`{{define "F"}}<b{{end}}{{define "A"}}{{template "F" .}} id="x">ok</b>{{end}}: ExecuteTemplate A (ok), ExecuteTemplate F (error), ExecuteTemplate A → nil pointer dereference`)
		} else {
			r.OK(rule, c, pos, "the tree is emptied only when the body analysis failed")
		}
	}
	if n == 0 {
		r.Undec(rule, "template.escapeTemplate", p.Pos(et.Pos()), "no return path found")
	}
}

// isExhaustiveStateDispatcher: f is the function that dispatches on the tokenizer state (instead of a table) and
// every declared state constant reaches one of its transition functions, so that the statement after the switch
// cannot be reached with a declared state.
func isExhaustiveStateDispatcher(p *Program, f *ssa.Function) bool {
	disp, _, err := stateDispatch(p)
	if err != nil || len(disp) == 0 {
		return false
	}
	tpk := p.Pkg("template")
	stObj := tpk.Types.Scope().Lookup("state")
	if stObj == nil {
		return false
	}
	for v := range ConstNames(tpk, stObj.Type()) {
		if disp[v] == nil {
			return false
		}
	}
	// f calls every dispatched function and tests the state of its context parameter
	if len(f.Params) == 0 {
		return false
	}
	tests := false
	for _, b := range f.Blocks {
		for _, in := range b.Instrs {
			if v, ok := in.(ssa.Value); ok && isStateLoadOf(v, f.Params[0]) {
				tests = true
			}
		}
	}
	if !tests {
		return false
	}
	called := map[*ssa.Function]bool{}
	for _, b := range f.Blocks {
		for _, in := range b.Instrs {
			if c, ok := in.(*ssa.Call); ok {
				if g := staticCallee(c.Common()); g != nil {
					called[g] = true
				}
			}
		}
	}
	for _, g := range disp {
		if !called[g] {
			return false
		}
	}
	return true
}

func sameLoad(a, b ssa.Value) bool {
	x, ok1 := a.(*ssa.UnOp)
	y, ok2 := b.(*ssa.UnOp)
	if !ok1 || !ok2 || x.Op != token.MUL || y.Op != token.MUL {
		return false
	}
	if x.X == y.X {
		// two loads of one local: the same if it is stored once
		if al, ok := x.X.(*ssa.Alloc); ok {
			return singleStoreLoose(al) != nil
		}
	}
	return false
}

func storesToFieldIn(fn *ssa.Function, fa *ssa.FieldAddr) bool {
	for _, b := range fn.Blocks {
		for _, in := range b.Instrs {
			if st, ok := in.(*ssa.Store); ok {
				if g, ok := st.Addr.(*ssa.FieldAddr); ok && g.Field == fa.Field && types.Identical(g.X.Type(), fa.X.Type()) {
					return true
				}
			}
		}
	}
	return false
}

// holdsFuncs: values of type t (a pointer to a package-level variable's type) can hold function values.
func holdsFuncs(t types.Type) bool {
	var walk func(t types.Type, depth int) bool
	walk = func(t types.Type, depth int) bool {
		if depth > 4 {
			return false
		}
		switch u := t.Underlying().(type) {
		case *types.Signature:
			return true
		case *types.Pointer:
			return walk(u.Elem(), depth+1)
		case *types.Array:
			return walk(u.Elem(), depth+1)
		case *types.Slice:
			return walk(u.Elem(), depth+1)
		case *types.Map:
			return walk(u.Elem(), depth+1)
		case *types.Struct:
			for i := 0; i < u.NumFields(); i++ {
				if walk(u.Field(i).Type(), depth+1) {
					return true
				}
			}
		}
		return false
	}
	return walk(t, 0)
}
