package main

// Discovery of unexported helpers by data flow, so that renaming them does not
// turn a check into "anchor not found". Exported API names and the few engine
// entry points (escapeTree, join, escapeTemplate, sanitizerForContext) remain
// name anchors.

import (
	"go/types"
	"strings"

	"golang.org/x/tools/go/ssa"
)

// findMangle: the function whose result keys the memo of analysed templates in escapeTree.
func findMangle(p *Program) *ssa.Function {
	et := p.Func("template", "(*escaper).escapeTree")
	if et == nil {
		return p.Func("template", "mangle")
	}
	pv := NewProv(p)
	pv.NoInline = true
	for _, b := range et.Blocks {
		for _, in := range b.Instrs {
			lk, ok := in.(*ssa.Lookup)
			if !ok {
				continue
			}
			e := pv.Of(lk.X)
			if e.Op == "field" && e.Name == "output" {
				if c, ok := lk.Index.(*ssa.Call); ok {
					if f := staticCallee(c.Common()); f != nil && f.Pkg == et.Pkg {
						return f
					}
				}
			}
		}
	}
	return p.Func("template", "mangle")
}

// findJoinNames: the helper whose result join() stores into the names fields.
func findJoinNames(p *Program) *ssa.Function {
	j := p.Func("template", "join")
	if j == nil {
		return p.Func("template", "joinNames")
	}
	for _, b := range j.Blocks {
		for _, in := range b.Instrs {
			st, ok := in.(*ssa.Store)
			if !ok {
				continue
			}
			fa, ok := st.Addr.(*ssa.FieldAddr)
			if !ok || fieldName(fa.X.Type(), fa.Field) != "names" {
				continue
			}
			if c, ok := st.Val.(*ssa.Call); ok {
				if f := staticCallee(c.Common()); f != nil && f.Pkg == j.Pkg {
					return f
				}
			}
		}
	}
	return p.Func("template", "joinNames")
}

// findCheckCanParse: the parameterless error-returning method of *Template that reads nameSpace.escaped.
func findCheckCanParse(p *Program) *ssa.Function {
	tsp := p.SSAPkg("template")
	for _, f := range p.SrcFuncs() {
		if f.Pkg != tsp || f.Signature.Recv() == nil || f.Signature.Params().Len() != 0 || f.Signature.Results().Len() != 1 {
			continue
		}
		if !isNamed(f.Signature.Recv().Type(), pkgTemplate, "Template") || !isErrorType(f.Signature.Results().At(0).Type()) {
			continue
		}
		reads, writes := false, false
		for _, b := range f.Blocks {
			for _, in := range b.Instrs {
				if fa, ok := in.(*ssa.FieldAddr); ok && isNamed(fa.X.Type(), pkgTemplate, "nameSpace") && fieldName(fa.X.Type(), fa.Field) == "escaped" {
					for _, ref := range *fa.Referrers() {
						switch ref.(type) {
						case *ssa.UnOp:
							reads = true
						case *ssa.Store:
							writes = true
						}
					}
				}
			}
		}
		if reads && !writes {
			return f
		}
	}
	return p.Func("template", "(*Template).checkCanParse")
}

// findEscaperTemplateLookup: the escaper method (name string) *text/template.Template.
func findEscaperTemplateLookup(p *Program) *ssa.Function {
	tsp := p.SSAPkg("template")
	for _, f := range p.SrcFuncs() {
		if f.Pkg != tsp || f.Signature.Recv() == nil || !isNamed(f.Signature.Recv().Type(), pkgTemplate, "escaper") {
			continue
		}
		sig := f.Signature
		if sig.Params().Len() == 1 && sig.Results().Len() == 1 && isNamed(sig.Results().At(0).Type(), "text/template", "Template") {
			if b, ok := sig.Params().At(0).Type().Underlying().(*types.Basic); ok && b.Kind() == types.String {
				return f
			}
		}
	}
	return p.Func("template", "(*escaper).template")
}

func shortFn(f *ssa.Function) string {
	if f == nil {
		return "<not found>"
	}
	return strings.TrimPrefix(strings.Replace(fnName(f), "(*"+pkgTemplate+".", "(*", 1), pkgTemplate+".")
}

// findRootAnalysis: the function of package template that both execution gates call, whose error result they
// return, and from which the tree walk (escapeTree) is reached: the analysis of one root template, whatever it
// is called and whatever it is a method of.
func findRootAnalysis(p *Program) *ssa.Function {
	walk := p.Func("template", "(*escaper).escapeTree")
	if walk == nil {
		return nil
	}
	reaches := func(f *ssa.Function) bool {
		seen := map[*ssa.Function]bool{}
		work := []*ssa.Function{f}
		for len(work) > 0 && len(seen) < 64 {
			g := work[len(work)-1]
			work = work[:len(work)-1]
			if g == walk {
				return true
			}
			if seen[g] || g.Blocks == nil || g.Pkg != walk.Pkg {
				continue
			}
			seen[g] = true
			for _, b := range g.Blocks {
				for _, in := range b.Instrs {
					if c, ok := in.(ssa.CallInstruction); ok {
						if h := staticCallee(c.Common()); h != nil {
							work = append(work, h)
						}
					}
				}
			}
		}
		return false
	}
	var common map[*ssa.Function]bool
	for _, name := range []string{"(*Template).escape", "(*Template).lookupAndEscapeTemplate"} {
		gate := p.Func("template", name)
		if gate == nil {
			return nil
		}
		here := map[*ssa.Function]bool{}
		for _, b := range gate.Blocks {
			for _, in := range b.Instrs {
				c, ok := in.(*ssa.Call)
				if !ok {
					continue
				}
				h := staticCallee(c.Common())
				if h == nil || h.Pkg != gate.Pkg || h.Signature.Results().Len() != 1 || !isErrorType(h.Signature.Results().At(0).Type()) {
					continue
				}
				if h.Object() != nil && h.Object().Exported() {
					continue
				}
				if reaches(h) {
					here[h] = true
				}
			}
		}
		if common == nil {
			common = here
		} else {
			for h := range common {
				if !here[h] {
					delete(common, h)
				}
			}
		}
	}
	if len(common) != 1 {
		return nil
	}
	for h := range common {
		return h
	}
	return nil
}
